#!/bin/bash
# seedverify.sh <ID>: confirm a seeded change (demo fails with it, suite passes with it, demo passes without it)
ID=$1; W=/tmp/wt/$ID; O=/tmp/seedout/$ID
export GOFLAGS=-mod=mod GOPROXY=off
PKG=$(cat $O/demo_pkg.txt | tr -d '\n ')
cd $W || exit 9
{
echo "== demo with change (expect FAIL)"
go test -vet=off -count=1 -run 'Seed' ./$PKG 2>&1 | tail -15
echo "rc_demo_with=${PIPESTATUS[0]}"
mv $W/$PKG/zz_seed_demo_test.go /tmp/seedout/$ID/.demo_aside.go
echo "== suite with change (expect ok)"
go test -vet=off -count=1 -timeout 25m ./... 2>&1 | grep -v "no test files" | tail -40
echo "rc_suite=${PIPESTATUS[0]}"
mv /tmp/seedout/$ID/.demo_aside.go $W/$PKG/zz_seed_demo_test.go
git diff > $O/.src.diff; git checkout -- .
echo "== demo without change (expect PASS)"
go test -vet=off -count=1 -run 'Seed' ./$PKG 2>&1 | tail -8
echo "rc_demo_without=${PIPESTATUS[0]}"
git apply $O/.src.diff
} > $O/verify.log 2>&1
grep rc_ $O/verify.log
