#!/usr/bin/env python3
# finalize.py <ID> <seedname>: copy a verified seed into /verif/seeded/<seedname>/ and drop the worktree
import json,sys,os,shutil,subprocess
ID,name=sys.argv[1],sys.argv[2]
O='/tmp/seedout/'+ID; D='/verif/seeded/'+name
log=open(O+'/verify.log').read()
rc={l.split('=')[0]:int(l.split('=')[1]) for l in log.splitlines() if l.startswith('rc_')}
assert rc['rc_demo_with']!=0 and rc['rc_suite']==0 and rc['rc_demo_without']==0, rc
os.makedirs(D,exist_ok=True)
shutil.copy(O+'/patch.diff',D+'/patch.diff')
shutil.copy(O+'/zz_seed_demo_test.go',D+'/zz_seed_demo_test.go')
m=json.load(open(O+'/meta.json'))
meta={'property':ID[:3],'summary':m.get('summary'),'needs':m.get('needs'),'files':m.get('files'),
 'demo_pkg':open(O+'/demo_pkg.txt').read().strip(),
 'origin':'written by an independent sub-agent given only the property text and a scratch worktree',
 'confirmed_by_me':{'how':'/tmp/seedout/seedverify.sh in the scratch worktree: demo test with the change (must fail), full suite `go test -vet=off -count=1 ./...` with the change (must pass), demo test with the change stashed (must pass)',
   'demo_with_change_exit':rc['rc_demo_with'],'suite_with_change_exit':rc['rc_suite'],'demo_without_change_exit':rc['rc_demo_without'],
   'log_excerpt':log[-1500:]}}
json.dump(meta,open(D+'/meta.json','w'),indent=1)
subprocess.run(['git','-C','/repo','worktree','remove','--force','/tmp/wt/'+ID])
print('kept',D)
