package main

// Token model of encoding/json (stub, listed in evidence): Marshal(v) stores a deep
// snapshot of v restricted to what JSON carries (exported fields, no `json:"-"`,
// omitempty applied) in a per-path table and returns the concrete bytes
// {"gosym-json":N}; Unmarshal(bytes, ptr) finds N and copies the snapshot into *ptr,
// calling a type's own UnmarshalJSON method where it has one. Contract assumed:
// encoding/json round-trips the exported data of zoekt's metadata types faithfully.
// Anything else (symbolic bytes, foreign JSON text) is UNSUPPORTED (inconclusive).

import (
	"fmt"
	"go/types"
	"hash/crc64"
	"reflect"
	"strconv"
	"strings"
	"unicode"

	"golang.org/x/tools/go/ssa"
)

type jsonRec struct {
	T types.Type
	V Value
}

const jsonTokPrefix = `{"gosym-json":`

func (x *Exec) jsonToken(t types.Type, v Value) Value {
	x.jsonRecs = append(x.jsonRecs, jsonRec{t, v})
	s := jsonTokPrefix + strconv.Itoa(len(x.jsonRecs)-1) + "}"
	a := make([]Value, len(s))
	for i := 0; i < len(s); i++ {
		a[i] = mkConst(8, uint64(s[i]))
	}
	return Slice{A: a, NotNil: true}
}

func isZoektPkg(p *types.Package) bool {
	return p != nil && strings.HasPrefix(p.Path(), "github.com/sourcegraph/zoekt")
}

// jsonSnap: deep copy of v (static type t) keeping only what JSON carries.
func (x *Exec) jsonSnap(t types.Type, v Value, depth int) Value {
	if depth > 12 {
		panic(unsupported{"json model: value too deep"})
	}
	if n, ok := types.Unalias(t).(*types.Named); ok && !isZoektPkg(n.Obj().Pkg()) {
		if _, isStruct := n.Underlying().(*types.Struct); isStruct {
			return copyVal(v) // time.Time and friends: carried as a whole
		}
	}
	switch u := t.Underlying().(type) {
	case *types.Basic:
		return v
	case *types.Pointer:
		p := v.(*Value)
		if p == nil {
			return p
		}
		c := new(Value)
		*c = x.jsonSnap(u.Elem(), *p, depth+1)
		return c
	case *types.Struct:
		s := v.(Struct)
		r := make(Struct, len(s))
		for i := range s {
			f := u.Field(i)
			tag := reflect.StructTag(u.Tag(i)).Get("json")
			name, opts, _ := strings.Cut(tag, ",")
			if !f.Exported() || name == "-" {
				r[i] = zero(f.Type())
				continue
			}
			if strings.Contains(opts, "omitempty") && jsonEmpty(s[i]) {
				r[i] = zero(f.Type())
				continue
			}
			r[i] = x.jsonSnap(f.Type(), s[i], depth+1)
		}
		return r
	case *types.Slice:
		s := v.(Slice)
		if !s.NotNil && len(s.A) == 0 {
			return Slice{}
		}
		a := make([]Value, len(s.A))
		for i := range a {
			a[i] = x.jsonSnap(u.Elem(), s.A[i], depth+1)
		}
		return Slice{A: a, NotNil: true}
	case *types.Array:
		s := v.(Array)
		a := make(Array, len(s))
		for i := range a {
			a[i] = x.jsonSnap(u.Elem(), s[i], depth+1)
		}
		return a
	case *types.Map:
		m := v.(*Map)
		if m == nil {
			return m
		}
		nm := newMap(u.Key())
		for i := range m.keys {
			if m.live[i] {
				x.mapInsert(nm, m.keys[i], x.jsonSnap(u.Elem(), m.vals[i], depth+1))
			}
		}
		return nm
	case *types.Interface:
		i := v.(Iface)
		if i.T == nil {
			return i
		}
		return Iface{T: i.T, V: x.jsonSnap(i.T, i.V, depth+1)}
	}
	panic(unsupported{"json model: cannot carry " + t.String()})
}

func jsonEmpty(v Value) bool {
	switch v := v.(type) {
	case *Term:
		return v.IsConst() && v.C == 0
	case float64:
		return v == 0
	case Str:
		return v.Len() == 0
	case Slice:
		return len(v.A) == 0
	case *Map:
		return v == nil || v.n == 0
	case *Value:
		return v == nil
	case Iface:
		return v.T == nil
	}
	return false
}

// jsonDecode copies src (type st) into the cell dst of type dt with JSON decoding semantics.
func (x *Exec) jsonDecode(fr *frame, dt types.Type, dst *Value, st types.Type, src Value, depth int) Value {
	if depth > 12 {
		panic(unsupported{"json model: value too deep"})
	}
	// source pointers are transparent; nil = JSON null = leave destination (set to zero for pointers/maps/slices)
	if sp, ok := st.Underlying().(*types.Pointer); ok {
		p := src.(*Value)
		if p == nil {
			switch dt.Underlying().(type) {
			case *types.Pointer, *types.Map, *types.Slice, *types.Interface:
				*dst = zero(dt)
			}
			return nil
		}
		return x.jsonDecode(fr, dt, dst, sp.Elem(), *p, depth+1)
	}
	// a named destination type whose pointer has UnmarshalJSON decodes itself
	if n, ok := types.Unalias(dt).(*types.Named); ok && isZoektPkg(n.Obj().Pkg()) {
		if m := x.eng.lookupMethodSafe(types.NewPointer(n), "UnmarshalJSON"); m != nil {
			tok := x.jsonToken(st, src)
			r := x.callFunction(fr, m, []Value{dst, tok}, nil)
			if e, ok := r.(Iface); ok && e.T != nil {
				return e
			}
			return nil
		}
	}
	if dp, ok := dt.Underlying().(*types.Pointer); ok {
		p := (*dst).(*Value)
		if p == nil {
			p = new(Value)
			*p = zero(dp.Elem())
			*dst = p
		}
		return x.jsonDecode(fr, dp.Elem(), p, st, src, depth+1)
	}
	if n, ok := types.Unalias(dt).(*types.Named); ok && !isZoektPkg(n.Obj().Pkg()) {
		if _, isStruct := n.Underlying().(*types.Struct); isStruct {
			storeInto(dst, copyVal(src))
			return nil
		}
	}
	switch du := dt.Underlying().(type) {
	case *types.Basic:
		*dst = src
		return nil
	case *types.Struct:
		su, ok := st.Underlying().(*types.Struct)
		if !ok || su.NumFields() != du.NumFields() {
			if _, isStruct := st.Underlying().(*types.Struct); !isStruct {
				return x.eng.makeOpaqueError("json: cannot unmarshal " + st.String() + " into Go value of type " + dt.String())
			}
			panic(unsupported{"json model: struct shape mismatch " + dt.String() + " vs " + st.String()})
		}
		d := (*dst).(Struct)
		s := src.(Struct)
		for i := range d {
			f := du.Field(i)
			tag := reflect.StructTag(du.Tag(i)).Get("json")
			name, _, _ := strings.Cut(tag, ",")
			if !f.Exported() || name == "-" {
				continue
			}
			if jsonEmpty(s[i]) {
				if _, isStruct := f.Type().Underlying().(*types.Struct); !isStruct {
					// absent or zero in the document: numbers/strings/bools decode to the same zero; nil stays as it is
					if _, isBasic := f.Type().Underlying().(*types.Basic); isBasic {
						d[i] = s[i]
					}
					continue
				}
			}
			if e := x.jsonDecode(fr, f.Type(), &d[i], su.Field(i).Type(), s[i], depth+1); e != nil {
				return e
			}
		}
		return nil
	case *types.Slice:
		su, ok := st.Underlying().(*types.Slice)
		if !ok {
			return x.eng.makeOpaqueError("json: cannot unmarshal " + st.String() + " into Go value of type " + dt.String())
		}
		s := src.(Slice)
		if !s.NotNil && len(s.A) == 0 {
			*dst = Slice{}
			return nil
		}
		a := make([]Value, len(s.A))
		for i := range a {
			a[i] = zero(du.Elem())
			if e := x.jsonDecode(fr, du.Elem(), &a[i], su.Elem(), s.A[i], depth+1); e != nil {
				return e
			}
		}
		*dst = Slice{A: a, NotNil: true}
		return nil
	case *types.Array:
		su := st.Underlying().(*types.Array)
		d := (*dst).(Array)
		s := src.(Array)
		for i := range d {
			if e := x.jsonDecode(fr, du.Elem(), &d[i], su.Elem(), s[i], depth+1); e != nil {
				return e
			}
		}
		return nil
	case *types.Map:
		su, ok := st.Underlying().(*types.Map)
		if !ok {
			panic(unsupported{"json model: map shape mismatch"})
		}
		m := src.(*Map)
		if m == nil {
			*dst = (*Map)(nil)
			return nil
		}
		nm, _ := (*dst).(*Map)
		if nm == nil {
			nm = newMap(du.Key())
		}
		for i := range m.keys {
			if m.live[i] {
				cell := new(Value)
				*cell = zero(du.Elem())
				if e := x.jsonDecode(fr, du.Elem(), cell, su.Elem(), m.vals[i], depth+1); e != nil {
					return e
				}
				x.mapInsert(nm, m.keys[i], *cell)
			}
		}
		*dst = nm
		return nil
	case *types.Interface:
		i := src.(Iface)
		*dst = i
		return nil
	}
	panic(unsupported{"json model: cannot decode into " + dt.String()})
}

func (x *Exec) jsonLookup(data Value) (jsonRec, bool) {
	var bs []*Term
	switch d := data.(type) {
	case Slice:
		bs = sliceTerms(d)
	case Str:
		bs = d.bytes()
	}
	s := normStr(bs)
	if s.B != nil || !strings.HasPrefix(s.S, jsonTokPrefix) {
		return jsonRec{}, false
	}
	n, err := strconv.Atoi(strings.TrimSuffix(s.S[len(jsonTokPrefix):], "}"))
	if err != nil || n < 0 || n >= len(x.jsonRecs) {
		return jsonRec{}, false
	}
	return x.jsonRecs[n], true
}

func init() {
	reg := func(name string, f intrinsic) { intrinsics[name] = f }
	marshal := func(x *Exec, fr *frame, args []Value) Value {
		i := args[0].(Iface)
		if i.T == nil {
			return Tuple{x.jsonToken(types.Typ[types.UntypedNil], nil), Iface{}}
		}
		return Tuple{x.jsonToken(i.T, x.jsonSnap(i.T, i.V, 0)), Iface{}}
	}
	reg("encoding/json.Marshal", marshal)
	reg("encoding/json.MarshalIndent", marshal)
	reg("encoding/json.Unmarshal", func(x *Exec, fr *frame, args []Value) Value {
		rec, ok := x.jsonLookup(args[0])
		if !ok {
			// not a document produced by Marshal on this path: a syntax error, as for any non-JSON text
			s := normStr(sliceTerms(args[0]))
			if s.B == nil && !strings.HasPrefix(strings.TrimSpace(s.S), "{\"gosym") {
				return x.eng.makeOpaqueError("json: cannot decode " + strconv.Quote(truncate(s.S, 40)))
			}
			panic(unsupported{"json model: Unmarshal of bytes not produced by Marshal on this path"})
		}
		dst := args[1].(Iface)
		pt, isPtr := dst.T.Underlying().(*types.Pointer)
		if dst.T == nil || !isPtr || dst.V.(*Value) == nil {
			return x.eng.makeOpaqueError("json: Unmarshal(non-pointer)")
		}
		if rec.T == types.Typ[types.UntypedNil] {
			return Iface{}
		}
		if e := x.jsonDecode(fr, pt.Elem(), dst.V.(*Value), rec.T, rec.V, 0); e != nil {
			return e
		}
		return Iface{}
	})

	// ---- hash/crc64: native on concrete bytes
	reg("hash/crc64.update", func(x *Exec, fr *frame, args []Value) Value {
		crc := x.concreteIntT(args[0].(*Term), "crc64 state")
		tp := args[1].(*Value)
		var tab crc64.Table
		for i, e := range (*tp).(Array) {
			tab[i] = e.(*Term).C
		}
		bs := sliceTerms(args[2])
		p := make([]byte, len(bs))
		sym := false
		for i, b := range bs {
			if !b.IsConst() {
				sym = true
				break
			}
			p[i] = byte(b.C)
		}
		if sym {
			// checksum of symbolic bytes: an opaque 64-bit value, the same for the same byte terms
			// (the checksum is stored and reported, never branched on by the code under test)
			key := fmt.Sprintf("%d|%d", crc, tab[1])
			for _, b := range bs {
				key += fmt.Sprintf("|%p", b)
			}
			if x.crcSym == nil {
				x.crcSym = map[string]*Term{}
			}
			if t, ok := x.crcSym[key]; ok {
				return t
			}
			t := x.freshAux("crc64", 64)
			x.crcSym[key] = t
			x.stubSeen["hash/crc64 of symbolic bytes: opaque value, functional in the bytes"] = true
			return t
		}
		return mkConst(64, crc64.Update(crc, &tab, p))
	})
	reg("hash/crc64.MakeTable", func(x *Exec, fr *frame, args []Value) Value {
		poly := x.concreteIntT(args[0].(*Term), "crc64 poly")
		if x.crcTabs == nil {
			x.crcTabs = map[uint64]*Value{}
		}
		if c, ok := x.crcTabs[poly]; ok {
			return c
		}
		t := crc64.MakeTable(poly)
		a := make(Array, 256)
		for i := range a {
			a[i] = mkConst(64, t[i])
		}
		c := new(Value)
		*c = a
		x.crcTabs[poly] = c
		return c
	})
}

func truncate(s string, n int) string {
	if len(s) > n {
		return s[:n]
	}
	return s
}

func (e *Engine) makeOpaqueError(msg string) Value {
	if e.fmtErrT != nil {
		cell := new(Value)
		*cell = Struct{Str{S: msg}, Iface{}}
		return Iface{T: e.fmtErrT, V: cell}
	}
	return Iface{T: types.Typ[types.String], V: Str{S: msg}}
}

var _ = fmt.Sprint
var _ *ssa.Function

// ---- unicode case functions: native on concrete runes; on symbolic runes the ASCII range is a
// closed formula (what the functions' own ASCII fast paths compute) and everything else is
// interpreted from the real source (forking along the table search).
func init() {
	type uf struct {
		name   string
		native func(r rune) uint64
		w      int
		ascii  func(x *Exec, r *Term) *Term
	}
	inRange := func(x *Exec, r *Term, lo, hi rune) *Term {
		return x.cx.And(x.cx.Cmp("bvsle", mkConst(32, uint64(lo)), r), x.cx.Cmp("bvsle", r, mkConst(32, uint64(hi))))
	}
	add := func(x *Exec, r *Term, d int32) *Term { return x.cx.Bin("bvadd", r, mkConst(32, uint64(uint32(d)))) }
	b2u := func(b bool) uint64 {
		if b {
			return 1
		}
		return 0
	}
	fns := []uf{
		{"unicode.ToLower", func(r rune) uint64 { return uint64(uint32(unicode.ToLower(r))) }, 32, func(x *Exec, r *Term) *Term {
			return x.cx.Ite(inRange(x, r, 'A', 'Z'), add(x, r, 32), r)
		}},
		{"unicode.ToUpper", func(r rune) uint64 { return uint64(uint32(unicode.ToUpper(r))) }, 32, func(x *Exec, r *Term) *Term {
			return x.cx.Ite(inRange(x, r, 'a', 'z'), add(x, r, -32), r)
		}},
		{"unicode.SimpleFold", func(r rune) uint64 { return uint64(uint32(unicode.SimpleFold(r))) }, 32, func(x *Exec, r *Term) *Term {
			eq := func(c rune) *Term { return x.cx.Eq(r, mkConst(32, uint64(c))) }
			res := x.cx.Ite(inRange(x, r, 'A', 'Z'), add(x, r, 32), x.cx.Ite(inRange(x, r, 'a', 'z'), add(x, r, -32), r))
			res = x.cx.Ite(eq('k'), mkConst(32, 0x212A), res)
			res = x.cx.Ite(eq('s'), mkConst(32, 0x17F), res)
			return res
		}},
		{"unicode.IsUpper", func(r rune) uint64 { return b2u(unicode.IsUpper(r)) }, 0, func(x *Exec, r *Term) *Term { return inRange(x, r, 'A', 'Z') }},
		{"unicode.IsPrint", func(r rune) uint64 { return b2u(unicode.IsPrint(r)) }, 0, func(x *Exec, r *Term) *Term { return inRange(x, r, 0x20, 0x7E) }},
		{"unicode.IsLower", func(r rune) uint64 { return b2u(unicode.IsLower(r)) }, 0, func(x *Exec, r *Term) *Term { return inRange(x, r, 'a', 'z') }},
	}
	for _, f := range fns {
		f := f
		intrinsics[f.name] = func(x *Exec, fr *frame, args []Value) Value {
			r := args[0].(*Term)
			if r.IsConst() {
				v := f.native(rune(int32(uint32(r.C))))
				if f.w == 0 {
					return mkBool(v != 0)
				}
				return mkConst(f.w, v)
			}
			if x.Decide(x.cx.And(x.cx.Cmp("bvsle", mkConst(32, 0), r), x.cx.Cmp("bvsle", r, mkConst(32, 0x7F)))) {
				return f.ascii(x, r)
			}
			return x.callBody(fr.caller, fr.fn, args)
		}
	}
}
