package main

// Path exploration by re-execution: a path is identified by its decision
// prefix; workers pop a prefix, replay it without solver queries, and extend
// it, pushing feasible alternatives to the shared queue.

import (
	"fmt"
	"os"
	"runtime/debug"
	"sort"
	"strings"
	"sync"
	"time"

	"golang.org/x/tools/go/ssa"
)

type decKind uint8

const (
	dBool  decKind = iota // Branch decision; V = 0/1
	dVal                  // concretisation: term == V
	dNotIn                // concretisation continuation: term ∉ Vals (then pick a fresh value)
)

type Decision struct {
	K    decKind
	V    uint64
	Vals []uint64
}

type Outcome string

const (
	OK          Outcome = "ok"
	Violation   Outcome = "violation"
	Infeasible  Outcome = "infeasible" // assume failed / concretisation exhausted: not a path
	Unwind      Outcome = "UNWIND"
	Depth       Outcome = "DEPTH"
	Timeout     Outcome = "TIMEOUT" // solver unknown
	Unsupported Outcome = "UNSUPPORTED"
	Deadlock    Outcome = "DEADLOCK"
	EngineError Outcome = "ENGINE-ERROR"
)

type ViolationRec struct {
	Harness string   `json:"harness"`
	Label   string   `json:"label"`
	Kind    string   `json:"kind"` // assert | panic
	Msg     string   `json:"msg"`
	Vector  []uint64 `json:"vector"`
	Names   []string `json:"names"`
	Widths  []int    `json:"widths"`
	Where   string   `json:"where"`
	Path    string   `json:"path_decisions"`
}

type ConfVec struct {
	Vector  []uint64 `json:"vector"`
	Observe []string `json:"observe"` // label=value
}

type PathResult struct {
	Outcome Outcome
	Detail  string
}

type HarnessBounds struct {
	MaxUnwind     int   `json:"max_unwind"`
	MaxPaths      int   `json:"max_paths"`
	MaxSteps      int64 `json:"max_steps"`
	MaxConcretize int   `json:"max_concretize"`
	TimeoutMs     int   `json:"solver_timeout_ms"`
	ConfVectors   int   `json:"conformance_vectors"`
}

type HarnessResult struct {
	Harness      string         `json:"harness"`
	Paths        int            `json:"paths"`
	PathsNontriv int            `json:"paths_nontrivial"`
	Infeasible   int            `json:"infeasible_prefixes"`
	Outcomes     map[string]int `json:"outcomes"`
	Details      map[string]int `json:"details"`
	Violations   []ViolationRec `json:"violations"`
	Reach        map[string]int `json:"reach"`
	AssertsTotal int            `json:"assert_instances"`
	AssertsOK    int            `json:"assert_discharged"`
	Queries      int            `json:"queries"`
	SolverS      float64        `json:"solver_s"`
	WallS        float64        `json:"wall_s"`
	Steps        int64          `json:"steps"`
	Funcs        []string       `json:"functions_encoded"`
	Intrinsics   []string       `json:"intrinsics"`
	Stubs        []string       `json:"stubs"`
	Conf         []ConfVec      `json:"conformance"`
	Samples      []string       `json:"samples"`
	Bounds       HarnessBounds  `json:"bounds"`
	SolverErrors int            `json:"solver_errors"`
	MaxDepthSeen int            `json:"max_decisions"`
}

type Explorer struct {
	eng     *Engine
	harness string
	bounds  HarnessBounds
	solver  string

	mu              sync.Mutex
	cond            *sync.Cond
	queue           [][]Decision
	active          int
	res             *HarnessResult
	funcs           map[string]bool
	intr            map[string]bool
	stubs           map[string]bool
	stop            bool
	stopOnViolation bool
	violSeen        map[string]bool
}

func (e *Engine) Explore(harness string, b HarnessBounds, nworkers int, solverKind string, stopOnViolation ...bool) *HarnessResult {
	ex := &Explorer{stopOnViolation: len(stopOnViolation) > 0 && stopOnViolation[0], eng: e, harness: harness, bounds: b, solver: solverKind,
		funcs: map[string]bool{}, intr: map[string]bool{}, stubs: map[string]bool{}, violSeen: map[string]bool{}}
	ex.cond = sync.NewCond(&ex.mu)
	ex.res = &HarnessResult{Harness: harness, Outcomes: map[string]int{}, Details: map[string]int{}, Reach: map[string]int{}, Bounds: b}
	ex.queue = [][]Decision{nil}
	t0 := time.Now()
	var wg sync.WaitGroup
	if os.Getenv("GOSYM_PROGRESS") != "" {
		done := make(chan bool)
		defer close(done)
		go func() {
			for {
				select {
				case <-done:
					return
				case <-time.After(10 * time.Second):
					ex.mu.Lock()
					fmt.Fprintf(os.Stderr, "   .. %.0fs paths=%d queue=%d active=%d queries=%d solver=%.0fs viol=%d\n", time.Since(t0).Seconds(), ex.res.Paths, len(ex.queue), ex.active, ex.res.Queries, ex.res.SolverS, len(ex.res.Violations))
					ex.mu.Unlock()
				}
			}
		}()
	}
	for i := 0; i < nworkers; i++ {
		wg.Add(1)
		go func(id int) {
			defer wg.Done()
			ex.worker(id)
		}(i)
	}
	wg.Wait()
	r := ex.res
	r.WallS = time.Since(t0).Seconds()
	for f := range ex.funcs {
		r.Funcs = append(r.Funcs, f)
	}
	sort.Strings(r.Funcs)
	for f := range ex.intr {
		r.Intrinsics = append(r.Intrinsics, f)
	}
	sort.Strings(r.Intrinsics)
	for f := range ex.stubs {
		r.Stubs = append(r.Stubs, f)
	}
	sort.Strings(r.Stubs)
	return r
}

func (ex *Explorer) worker(id int) {
	sol, err := NewSolver(ex.solver, ex.bounds.TimeoutMs)
	if err != nil {
		fmt.Fprintln(os.Stderr, "solver start:", err)
		return
	}
	defer sol.Close()
	if os.Getenv("GOSYM_SMTLOG") != "" && id == 0 {
		f, _ := os.Create(os.Getenv("GOSYM_SMTLOG"))
		sol.log = f
	}
	for {
		ex.mu.Lock()
		for len(ex.queue) == 0 && ex.active > 0 && !ex.stop {
			ex.cond.Wait()
		}
		if ex.stop || len(ex.queue) == 0 {
			ex.mu.Unlock()
			ex.cond.Broadcast()
			return
		}
		prefix := ex.queue[len(ex.queue)-1]
		ex.queue = ex.queue[:len(ex.queue)-1]
		ex.active++
		ex.mu.Unlock()

		ex.runPath(sol, prefix)

		ex.mu.Lock()
		ex.active--
		if ex.res.Paths >= ex.bounds.MaxPaths && (len(ex.queue) > 0 || ex.active > 0) {
			if !ex.stop {
				ex.res.Outcomes["PATHS"]++
			}
			ex.stop = true
		}
		ex.mu.Unlock()
		ex.cond.Broadcast()
	}
}

func (ex *Explorer) push(p []Decision) {
	ex.mu.Lock()
	ex.queue = append(ex.queue, p)
	ex.mu.Unlock()
	ex.cond.Signal()
}

// ---- per-path executor state

type pathAbort struct {
	out    Outcome
	detail string
}

type unsupported struct{ msg string }

type Exec struct {
	ex      *Explorer
	eng     *Engine
	cx      *TermCtx
	sol     *Solver
	prefix  []Decision
	pos     int
	decs    []Decision // decisions made so far on this path (prefix + new)
	facts   map[*Term]bool
	steps   int64
	symDecs int
	// nondet inputs in creation order
	inVars  []*Term
	inNames []string
	// observations
	obsLabels       []string
	obsTerms        []Value
	reach           map[string]bool
	asserts         int
	assertsOK       int
	viols           []ViolationRec
	pkgInit         map[string]bool
	globals         map[interface{}]*Value
	funcsSeen       map[string]bool
	intrSeen        map[string]bool
	stubSeen        map[string]bool
	curFrame        *frame
	threads         *threadState
	chanID          int
	mapOrderNondet  bool
	allocBound      int64 // 0 = off; else alloc-size assertion bound
	allocInputLen   int64
	threadsEnabled  bool
	maxSched        int
	locks           map[*Value]*lockState
	wgs             map[*Value]int64
	onceDone        map[*Value]bool
	sharedBuild     string
	loopBudget      int
	stepBudget      int64
	stepBudgetStart int64
	lastPanicWhere  string
	auxVars         []*Term
	clockStrict     bool
	inInit          map[*ssa.Package]bool
	clock           *Term
	pools           map[*Value][]Value
	preemptBound    int
	canonSched      bool // one canonical schedule: lowest-numbered enabled thread at blocking points
	preemptions     int
	clockConcrete   bool
	clockTicks      int64
	jsonRecs        []jsonRec
	crcTabs         map[uint64]*Value
	crcSym          map[string]*Term
}

func (x *Exec) replaying() bool { return x.pos < len(x.prefix) }

func (x *Exec) abort(o Outcome, detail string) {
	panic(pathAbort{o, detail})
}

func (ex *Explorer) runPath(sol *Solver, prefix []Decision) {
	x := &Exec{ex: ex, eng: ex.eng, cx: newTermCtx(), sol: sol, prefix: prefix,
		facts: map[*Term]bool{}, reach: map[string]bool{}, pkgInit: map[string]bool{},
		globals: map[interface{}]*Value{}, funcsSeen: map[string]bool{}, intrSeen: map[string]bool{}, stubSeen: map[string]bool{}}
	sol.Reset()
	if os.Getenv("GOSYM_PROGRESS") != "" {
		sol.SlowHook = func(d time.Duration, r SatResult) {
			fmt.Fprintf(os.Stderr, "   .. slow query %.1fs result=%v%s\n", d.Seconds(), r, x.whereStr())
		}
	}
	q0, t0 := sol.Queries, sol.SolveTime
	e0 := sol.Errors
	out, detail := x.run()
	ex.mu.Lock()
	defer ex.mu.Unlock()
	r := ex.res
	r.Queries += sol.Queries - q0
	r.SolverS += (sol.SolveTime - t0).Seconds()
	r.SolverErrors += sol.Errors - e0
	r.Steps += x.steps
	for f := range x.funcsSeen {
		ex.funcs[f] = true
	}
	for f := range x.intrSeen {
		ex.intr[f] = true
	}
	for f := range x.stubSeen {
		ex.stubs[f] = true
	}
	r.AssertsTotal += x.asserts
	r.AssertsOK += x.assertsOK
	for _, v := range x.viols {
		key := v.Kind + "|" + v.Label + "|" + v.Where
		if ex.violSeen[key] && len(r.Violations) >= 8 {
			continue
		}
		ex.violSeen[key] = true
		if len(r.Violations) < 64 {
			r.Violations = append(r.Violations, v)
		}
	}
	if ex.stopOnViolation && len(r.Violations) > 0 {
		ex.stop = true
	}
	if out == Infeasible {
		r.Infeasible++
		return
	}
	r.Paths++
	if len(x.decs) > 0 {
		r.PathsNontriv++
	}
	if len(x.decs) > r.MaxDepthSeen {
		r.MaxDepthSeen = len(x.decs)
	}
	if len(x.viols) > 0 && out == OK {
		out = Violation
	}
	r.Outcomes[string(out)]++
	if out != OK && out != Violation && detail != "" {
		d := detail
		if len(d) > 300 {
			d = d[:300]
		}
		r.Details[string(out)+": "+d]++
	}
	if out == OK || out == Violation {
		for l := range x.reach {
			r.Reach[l]++
		}
	}
}

// run executes the harness once along the prefix and beyond.
func (x *Exec) run() (out Outcome, detail string) {
	defer x.killThreads()
	defer func() {
		if r := recover(); r != nil {
			switch r := r.(type) {
			case pathAbort:
				out, detail = r.out, r.detail
			case unsupported:
				out, detail = Unsupported, r.msg+x.whereStr()
			case targetPanic:
				// uncaught panic in the harness: a violation (no-panic obligation)
				msg := x.panicString(r.v)
				x.recordViolation("panic", "panic", msg+x.lastPanicWhere)
				out, detail = OK, ""
			default:
				out, detail = EngineError, fmt.Sprintf("%v%s\n%s", r, x.whereStr(), trimStack(string(debug.Stack())))
			}
		}
	}()
	fn := x.eng.lookupHarness(x.ex.harness)
	if fn == nil {
		return Unsupported, "harness not found: " + x.ex.harness
	}
	x.callFunction(nil, fn, nil, nil)
	if x.threads != nil {
		x.threads.finishAll(x)
	}
	x.maybeConformance()
	return OK, ""
}

func trimStack(s string) string {
	lines := strings.Split(s, "\n")
	var keep []string
	for _, l := range lines {
		if strings.Contains(l, "gosym") || strings.Contains(l, "main.") {
			keep = append(keep, strings.TrimSpace(l))
		}
		if len(keep) > 24 {
			break
		}
	}
	return strings.Join(keep, " | ")
}

func (x *Exec) whereStr() string {
	fr := x.curFrame
	var parts []string
	for i := 0; fr != nil && i < 6; i++ {
		pos := ""
		if fr.curInstr != nil {
			p := x.eng.prog.Fset.Position(fr.curInstr.Pos())
			if p.IsValid() {
				pos = fmt.Sprintf(":%s:%d", shortFile(p.Filename), p.Line)
			}
		}
		parts = append(parts, fr.fn.String()+pos)
		fr = fr.caller
	}
	if len(parts) == 0 {
		return ""
	}
	return " @ " + strings.Join(parts, " < ")
}

func shortFile(f string) string {
	if i := strings.LastIndex(f, "/"); i >= 0 {
		j := strings.LastIndex(f[:i], "/")
		return f[j+1:]
	}
	return f
}

// ---- decisions

func (x *Exec) assertPC(t *Term) {
	if t.IsConst() {
		return
	}
	x.facts[t] = true
	if t.Op == "not" {
		x.facts[t.Args[0]] = false
	}
	x.sol.Assert(t)
}

// Decide forks on a symbolic condition. Returns the branch taken on this path.
func (x *Exec) Decide(c *Term) bool {
	if c.IsConst() {
		return c.C != 0
	}
	if v, ok := x.facts[c]; ok {
		return v
	}
	if x.pos < len(x.prefix) {
		d := x.prefix[x.pos]
		x.pos++
		if d.K != dBool {
			x.abort(EngineError, "replay divergence: expected bool decision")
		}
		x.decs = append(x.decs, d)
		if d.V != 0 {
			x.assertPC(c)
			return true
		}
		x.assertPC(x.cx.Not(c))
		return false
	}
	x.symDecs++
	nc := x.cx.Not(c)
	rt := x.sol.Check(c)
	if rt == Unknown {
		x.abort(Timeout, "solver unknown on branch"+x.whereStr())
	}
	if rt == Unsat {
		x.decs = append(x.decs, Decision{K: dBool, V: 0})
		x.assertPC(nc)
		return false
	}
	rf := x.sol.Check(nc)
	if rf == Unknown {
		x.abort(Timeout, "solver unknown on branch"+x.whereStr())
	}
	if rf == Unsat {
		x.decs = append(x.decs, Decision{K: dBool, V: 1})
		x.assertPC(c)
		return true
	}
	// both feasible: fork
	alt := make([]Decision, len(x.decs)+1)
	copy(alt, x.decs)
	alt[len(x.decs)] = Decision{K: dBool, V: 0}
	x.ex.push(alt)
	x.decs = append(x.decs, Decision{K: dBool, V: 1})
	x.assertPC(c)
	return true
}

// Concretize returns a concrete value for t, forking over all feasible values.
func (x *Exec) Concretize(t *Term, what string) uint64 {
	if t.IsConst() {
		return t.C
	}
	var excl []uint64
	if x.pos < len(x.prefix) {
		d := x.prefix[x.pos]
		x.pos++
		switch d.K {
		case dVal:
			x.decs = append(x.decs, d)
			x.assertPC(x.cx.Eq(t, mkConst(t.W, d.V)))
			return d.V
		case dNotIn:
			if x.pos != len(x.prefix) {
				x.abort(EngineError, "replay divergence: notIn not last")
			}
			excl = d.Vals
		default:
			x.abort(EngineError, "replay divergence: expected value decision")
		}
	}
	if len(excl) >= x.ex.bounds.MaxConcretize {
		x.abort(Unwind, fmt.Sprintf("more than %d feasible values for %s%s", x.ex.bounds.MaxConcretize, what, x.whereStr()))
	}
	x.symDecs++
	// assert exclusions permanently on this path
	for _, v := range excl {
		x.assertPC(x.cx.Not(x.cx.Eq(t, mkConst(t.W, v))))
	}
	res, vals := x.sol.CheckModel([]*Term{t})
	if res == Unknown {
		x.abort(Timeout, "solver unknown on concretize"+x.whereStr())
	}
	if res == Unsat {
		x.abort(Infeasible, "")
	}
	v := vals[0]
	alt := make([]Decision, len(x.decs)+1)
	copy(alt, x.decs)
	nv := append(append([]uint64(nil), excl...), v)
	alt[len(x.decs)] = Decision{K: dNotIn, Vals: nv}
	x.ex.push(alt)
	x.decs = append(x.decs, Decision{K: dVal, V: v})
	x.assertPC(x.cx.Eq(t, mkConst(t.W, v)))
	return v
}

// Choose: an engine-level nondeterministic choice among n alternatives (schedule, select, map
// order) that no path condition constrains: the alternatives are enumerated as decisions without
// asking the solver.
func (x *Exec) Choose(n int, what string) int {
	if n <= 1 {
		return 0
	}
	v := uint64(0)
	if x.pos < len(x.prefix) {
		d := x.prefix[x.pos]
		x.pos++
		switch d.K {
		case dVal:
			x.decs = append(x.decs, d)
			if d.V >= uint64(n) {
				x.abort(EngineError, "replay divergence: choice out of range for "+what)
			}
			return int(d.V)
		case dNotIn:
			if x.pos != len(x.prefix) {
				x.abort(EngineError, "replay divergence: notIn not last")
			}
			v = uint64(len(d.Vals))
		default:
			x.abort(EngineError, "replay divergence: expected value decision")
		}
	}
	if v >= uint64(n) {
		x.abort(Infeasible, "")
	}
	x.symDecs++
	if v+1 < uint64(n) {
		alt := make([]Decision, len(x.decs)+1)
		copy(alt, x.decs)
		vals := make([]uint64, v+1)
		for i := range vals {
			vals[i] = uint64(i)
		}
		alt[len(x.decs)] = Decision{K: dNotIn, Vals: vals}
		x.ex.push(alt)
	}
	x.decs = append(x.decs, Decision{K: dVal, V: v})
	return int(v)
}

// Assume restricts the path; ends it silently if infeasible.
func (x *Exec) Assume(c *Term) {
	if c.IsConst() {
		if c.C == 0 {
			x.abort(Infeasible, "")
		}
		return
	}
	if v, ok := x.facts[c]; ok {
		if !v {
			x.abort(Infeasible, "")
		}
		return
	}
	if !x.replaying() {
		r := x.sol.Check(c)
		if r == Unknown {
			x.abort(Timeout, "solver unknown on assume"+x.whereStr())
		}
		if r == Unsat {
			x.abort(Infeasible, "")
		}
	}
	x.assertPC(c)
}

func (x *Exec) inputVector(extra ...*Term) (SatResult, []uint64) {
	return x.sol.CheckModel(x.inVars, extra...)
}

func (x *Exec) recordViolation(kind, label, msg string, extra ...*Term) {
	res, vals := x.inputVector(extra...)
	if res != Sat {
		// cannot produce a model: inconclusive
		x.abort(Timeout, "no model for violation "+label)
	}
	widths := make([]int, len(x.inVars))
	for i, v := range x.inVars {
		widths[i] = v.W
	}
	x.viols = append(x.viols, ViolationRec{
		Harness: x.ex.harness, Label: label, Kind: kind, Msg: msg,
		Vector: vals, Names: append([]string(nil), x.inNames...), Widths: widths,
		Where: strings.TrimPrefix(x.whereStr(), " @ "), Path: decString(x.decs),
	})
}

func decString(ds []Decision) string {
	var sb strings.Builder
	for _, d := range ds {
		switch d.K {
		case dBool:
			if d.V != 0 {
				sb.WriteByte('T')
			} else {
				sb.WriteByte('F')
			}
		case dVal:
			fmt.Fprintf(&sb, "[%d]", d.V)
		case dNotIn:
			fmt.Fprintf(&sb, "[!%v]", d.Vals)
		}
	}
	return sb.String()
}

// Assert checks c on all values of this path.
func (x *Exec) Assert(c *Term, label string) {
	if x.replaying() {
		// already checked by the path that created this prefix
		x.assumeQuiet(c)
		return
	}
	x.asserts++
	if c.IsConst() {
		if c.C != 0 {
			x.assertsOK++
			return
		}
		x.recordViolation("assert", label, "assertion failed: "+label)
		x.abort(OK, "")
	}
	if v, ok := x.facts[c]; ok && v {
		x.assertsOK++
		return
	}
	nc := x.cx.Not(c)
	r := x.sol.Check(nc)
	switch r {
	case Unknown:
		x.abort(Timeout, "solver unknown on assert "+label+x.whereStr())
	case Unsat:
		x.assertsOK++
		x.facts[c] = true
		return
	}
	x.recordViolation("assert", label, "assertion failed: "+label, nc)
	// continue under the assumption that it holds, if possible
	if x.sol.Check(c) != Sat {
		x.abort(OK, "")
	}
	x.assertPC(c)
}

func (x *Exec) assumeQuiet(c *Term) {
	if c.IsConst() {
		if c.C == 0 {
			x.abort(Infeasible, "")
		}
		return
	}
	if v, ok := x.facts[c]; ok && v {
		return
	}
	// During replay we cannot know cheaply whether the creating path recorded a
	// violation here and continued under c, or proved it; in both cases c holds
	// on the remainder of that path.
	x.assertPC(c)
}

// ---- conformance vectors (engine validation)

func (x *Exec) maybeConformance() {
	if x.ex.bounds.ConfVectors <= 0 || len(x.obsLabels) == 0 {
		return
	}
	x.ex.mu.Lock()
	n := len(x.ex.res.Conf)
	x.ex.mu.Unlock()
	if n >= x.ex.bounds.ConfVectors {
		return
	}
	// gather observed scalar terms
	var terms []*Term
	var labels []string
	for i, v := range x.obsTerms {
		flattenObs(x.obsLabels[i], v, &labels, &terms)
	}
	want := append(append([]*Term(nil), x.inVars...), terms...)
	res, vals := x.sol.CheckModel(want)
	if res != Sat {
		return
	}
	cv := ConfVec{Vector: vals[:len(x.inVars)]}
	for i, l := range labels {
		t := terms[i]
		v := vals[len(x.inVars)+i]
		cv.Observe = append(cv.Observe, fmt.Sprintf("%s=%d", l, mask(maxInt(t.W, 1))&v))
	}
	x.ex.mu.Lock()
	if len(x.ex.res.Conf) < x.ex.bounds.ConfVectors {
		x.ex.res.Conf = append(x.ex.res.Conf, cv)
	}
	x.ex.mu.Unlock()
}

func maxInt(a, b int) int {
	if a > b {
		return a
	}
	return b
}

func flattenObs(label string, v Value, labels *[]string, terms *[]*Term) {
	switch v := v.(type) {
	case *Term:
		*labels = append(*labels, label)
		*terms = append(*terms, v)
	case Str:
		*labels = append(*labels, label+".len")
		*terms = append(*terms, mkConst(64, uint64(v.Len())))
		for i, b := range v.bytes() {
			*labels = append(*labels, fmt.Sprintf("%s[%d]", label, i))
			*terms = append(*terms, b)
		}
	case Slice:
		*labels = append(*labels, label+".len")
		*terms = append(*terms, mkConst(64, uint64(len(v.A))))
		for i, e := range v.A {
			flattenObs(fmt.Sprintf("%s[%d]", label, i), e, labels, terms)
		}
	case Array:
		for i, e := range v {
			flattenObs(fmt.Sprintf("%s[%d]", label, i), e, labels, terms)
		}
	case Struct:
		for i, e := range v {
			flattenObs(fmt.Sprintf("%s.%d", label, i), e, labels, terms)
		}
	case Iface:
		if v.T == nil {
			*labels = append(*labels, label+".nil")
			*terms = append(*terms, mkConst(8, 1))
		} else {
			*labels = append(*labels, label+".nil")
			*terms = append(*terms, mkConst(8, 0))
			flattenObs(label+".v", v.V, labels, terms)
		}
	case *Value:
		if v == nil {
			*labels = append(*labels, label+".nil")
			*terms = append(*terms, mkConst(8, 1))
		} else {
			*labels = append(*labels, label+".nil")
			*terms = append(*terms, mkConst(8, 0))
		}
	}
}
