package main

// Value model (hybrid concrete / symbolic).
//
//   *Term                 bool and all integer kinds (W = 0 / 8 / 16 / 32 / 64)
//   float64               float32/float64 (concrete only)
//   complex128            (concrete only)
//   Str                   string: concrete s, or symbolic bytes b (concrete length)
//   Struct  []Value       struct (by value; copied on load/store)
//   Array   []Value       array
//   Slice                 {arr []Value sharing Go backing, nilness}
//   *Value                pointer (nil pointer = (*Value)(nil))
//   *SymPtr               pointer to slice/array element at a symbolic index
//   *Map                  map (nil map = (*Map)(nil))
//   Iface                 interface {T types.Type; V Value} (nil iface: T == nil)
//   *ssa.Function, *Closure, *ssa.Builtin   functions (nil func = (*ssa.Function)(nil))
//   *Chan                 channel
//   Tuple   []Value
//   *MapIter / *StrIter   range iterators

import (
	"fmt"
	"go/types"
	"math"
	"strings"

	"golang.org/x/tools/go/ssa"
)

type Value interface{}

type Struct []Value
type Array []Value
type Tuple []Value

type Slice struct {
	A      []Value // elements [0:len], cap = cap(A)
	NotNil bool    // distinguishes nil slice from empty non-nil
}

type Str struct {
	S string
	B []*Term // if non-nil: symbolic bytes, len(B) is the length; S unused
}

func (s Str) Len() int {
	if s.B != nil {
		return len(s.B)
	}
	return len(s.S)
}

func (s Str) IsConcrete() bool {
	return s.B == nil
}

// byteAt returns the i'th byte as a term
func (s Str) byteAt(i int) *Term {
	if s.B != nil {
		return s.B[i]
	}
	return mkConst(8, uint64(s.S[i]))
}

func (s Str) slice(lo, hi int) Str {
	if s.B != nil {
		return normStr(s.B[lo:hi])
	}
	return Str{S: s.S[lo:hi]}
}

// normStr builds a Str from byte terms, collapsing to concrete if all const.
func normStr(b []*Term) Str {
	allc := true
	for _, t := range b {
		if !t.IsConst() {
			allc = false
			break
		}
	}
	if allc {
		bs := make([]byte, len(b))
		for i, t := range b {
			bs[i] = byte(t.C)
		}
		return Str{S: string(bs)}
	}
	if len(b) == 0 {
		return Str{}
	}
	return Str{B: append([]*Term(nil), b...)}
}

func (s Str) bytes() []*Term {
	if s.B != nil {
		return s.B
	}
	r := make([]*Term, len(s.S))
	for i := 0; i < len(s.S); i++ {
		r[i] = mkConst(8, uint64(s.S[i]))
	}
	return r
}

// LazyArray: an array too large to materialise; cells exist once touched. Never copied by value.
type LazyArray struct {
	n     int64
	elem  types.Type
	cells map[int64]*Value
}

func (a *LazyArray) cell(i int64) *Value {
	c := a.cells[i]
	if c == nil {
		c = new(Value)
		*c = zero(a.elem)
		a.cells[i] = c
	}
	return c
}

type Iface struct {
	T types.Type
	V Value
}

type Closure struct {
	Fn  *ssa.Function
	Env []Value
}

// SymPtr: pointer to A[idx].path where idx is symbolic, 0 <= idx < len(A) on this path.
type SymPtr struct {
	A    []Value
	Idx  *Term // 64-bit
	Path []int // field/array path inside the element
}

type Map struct {
	keys    []Value
	vals    []Value
	live    []bool
	idx     map[interface{}]int // hashable concrete keys -> position
	symKeys []int               // positions of non-hashable (symbolic) keys
	n       int
	ktype   types.Type
}

type Chan struct {
	buf         []Value
	cap         int
	closed      bool
	elem        types.Type
	id          int
	pendingSend int
	taken       int
	waitingRecv int
}

type MapIter struct {
	m   *Map
	pos int
	ord []int // explicit order (nondet mode) or nil
}

type StrIter struct {
	s   Str
	pos int
}

// RType: reflect.Type stand-in
type RType struct{ T types.Type }

type deferred struct {
	fn    Value
	args  []Value
	instr *ssa.Defer
	tail  *deferred
}

// ---- zero values

func zero(t types.Type) Value {
	switch t := t.(type) {
	case *types.Basic:
		switch t.Kind() {
		case types.Bool, types.UntypedBool:
			return tFalse
		case types.Int, types.Int64, types.Uint, types.Uint64, types.Uintptr, types.UntypedInt:
			return mkConst(64, 0)
		case types.Int8, types.Uint8:
			return mkConst(8, 0)
		case types.Int16, types.Uint16:
			return mkConst(16, 0)
		case types.Int32, types.Uint32, types.UntypedRune:
			return mkConst(32, 0)
		case types.Float32, types.Float64, types.UntypedFloat:
			return float64(0)
		case types.Complex64, types.Complex128:
			return complex128(0)
		case types.String, types.UntypedString:
			return Str{}
		case types.UnsafePointer:
			return (*Value)(nil)
		case types.UntypedNil:
			return nil
		}
		panic(fmt.Sprintf("zero: basic %v", t))
	case *types.Pointer:
		return (*Value)(nil)
	case *types.Array:
		if t.Len() > 1<<16 {
			// huge table indexed sparsely (postingsBuilder.asciiPostings): cells are created on first touch
			return &LazyArray{n: t.Len(), elem: t.Elem(), cells: map[int64]*Value{}}
		}
		a := make(Array, t.Len())
		for i := range a {
			a[i] = zero(t.Elem())
		}
		return a
	case *types.Slice:
		return Slice{}
	case *types.Struct:
		s := make(Struct, t.NumFields())
		for i := range s {
			s[i] = zero(t.Field(i).Type())
		}
		return s
	case *types.Tuple:
		if t.Len() == 1 {
			return zero(t.At(0).Type())
		}
		s := make(Tuple, t.Len())
		for i := range s {
			s[i] = zero(t.At(i).Type())
		}
		return s
	case *types.Chan:
		return (*Chan)(nil)
	case *types.Map:
		return (*Map)(nil)
	case *types.Signature:
		return (*ssa.Function)(nil)
	case *types.Interface:
		return Iface{}
	case *types.Named:
		if t.Obj().Pkg() != nil && t.Obj().Pkg().Path() == "reflect" && t.Obj().Name() == "Type" {
			return Iface{}
		}
		return zero(t.Underlying())
	case *types.Alias:
		return zero(types.Unalias(t))
	case *types.TypeParam:
		panic(unsupported{"zero of type parameter " + t.String()})
	}
	panic(fmt.Sprintf("zero: unexpected type %T %v", t, t))
}

// copyVal makes an unaliased copy of aggregates.
func copyVal(v Value) Value {
	switch v := v.(type) {
	case *LazyArray:
		panic(unsupported{"copy of a huge array by value"})
	case Struct:
		c := make(Struct, len(v))
		for i, x := range v {
			c[i] = copyVal(x)
		}
		return c
	case Array:
		c := make(Array, len(v))
		for i, x := range v {
			c[i] = copyVal(x)
		}
		return c
	}
	return v
}

// ---- integer type info

func intInfo(t types.Type) (w int, signed bool, ok bool) {
	b, isb := t.Underlying().(*types.Basic)
	if !isb {
		return 0, false, false
	}
	switch b.Kind() {
	case types.Int, types.Int64, types.UntypedInt:
		return 64, true, true
	case types.Int8:
		return 8, true, true
	case types.Int16:
		return 16, true, true
	case types.Int32, types.UntypedRune:
		return 32, true, true
	case types.Uint, types.Uint64, types.Uintptr:
		return 64, false, true
	case types.Uint8:
		return 8, false, true
	case types.Uint16:
		return 16, false, true
	case types.Uint32:
		return 32, false, true
	}
	return 0, false, false
}

func isFloat(t types.Type) bool {
	b, ok := t.Underlying().(*types.Basic)
	return ok && b.Info()&types.IsFloat != 0
}

func isString(t types.Type) bool {
	b, ok := t.Underlying().(*types.Basic)
	return ok && b.Info()&types.IsString != 0
}

func isBool(t types.Type) bool {
	b, ok := t.Underlying().(*types.Basic)
	return ok && b.Info()&types.IsBoolean != 0
}

func roundFloat(t types.Type, f float64) float64 {
	if b, ok := t.Underlying().(*types.Basic); ok && b.Kind() == types.Float32 {
		return float64(float32(f))
	}
	return f
}

// ---- debug string

func valString(v Value) string {
	return valStringD(v, 0)
}

func valStringD(v Value, d int) string {
	if d > 4 {
		return "…"
	}
	switch v := v.(type) {
	case nil:
		return "nil"
	case *Term:
		if v.IsConst() {
			if v.W == 0 {
				return fmt.Sprint(v.C != 0)
			}
			return fmt.Sprint(v.C)
		}
		s := v.String()
		if len(s) > 80 {
			s = s[:80] + "…"
		}
		return s
	case float64:
		return fmt.Sprint(v)
	case Str:
		if v.B != nil {
			parts := make([]string, len(v.B))
			for i, b := range v.B {
				parts[i] = valStringD(b, d+1)
			}
			return "symstr[" + strings.Join(parts, ",") + "]"
		}
		return fmt.Sprintf("%q", v.S)
	case Struct:
		parts := make([]string, len(v))
		for i, x := range v {
			parts[i] = valStringD(x, d+1)
		}
		return "{" + strings.Join(parts, " ") + "}"
	case Array:
		parts := make([]string, 0, len(v))
		for i, x := range v {
			if i > 16 {
				parts = append(parts, "…")
				break
			}
			parts = append(parts, valStringD(x, d+1))
		}
		return "[" + strings.Join(parts, " ") + "]"
	case Slice:
		if !v.NotNil && len(v.A) == 0 {
			return "[]nil"
		}
		parts := make([]string, 0, len(v.A))
		for i, x := range v.A {
			if i > 16 {
				parts = append(parts, "…")
				break
			}
			parts = append(parts, valStringD(x, d+1))
		}
		return "[]{" + strings.Join(parts, " ") + "}"
	case *Value:
		if v == nil {
			return "nilptr"
		}
		return "&" + valStringD(*v, d+1)
	case Iface:
		if v.T == nil {
			return "nil-iface"
		}
		return "iface(" + v.T.String() + ":" + valStringD(v.V, d+1) + ")"
	case *Map:
		if v == nil {
			return "nilmap"
		}
		return fmt.Sprintf("map[%d]", v.n)
	case *ssa.Function:
		if v == nil {
			return "nilfunc"
		}
		return v.String()
	case *Closure:
		return "closure:" + v.Fn.String()
	case Tuple:
		parts := make([]string, len(v))
		for i, x := range v {
			parts[i] = valStringD(x, d+1)
		}
		return "(" + strings.Join(parts, ", ") + ")"
	}
	return fmt.Sprintf("%T", v)
}

var _ = math.Inf
