package main

import (
	"fmt"
	"go/token"
	"go/types"
	"math"
	"strconv"
	"strings"
	"unicode/utf8"

	"golang.org/x/tools/go/ssa"
)

func (x *Exec) unop(fr *frame, instr *ssa.UnOp, v Value) Value {
	switch instr.Op {
	case token.MUL: // load
		return x.load(instr.Type(), v)
	case token.ARROW:
		return x.chanRecv(fr, v.(*Chan), instr.CommaOk)
	case token.NOT:
		return x.cx.Not(v.(*Term))
	case token.SUB:
		switch v := v.(type) {
		case *Term:
			return x.cx.BvNeg(v)
		case float64:
			return roundFloat(instr.Type(), -v)
		case complex128:
			return -v
		}
	case token.XOR:
		return x.cx.BvNot(v.(*Term))
	}
	panic(fmt.Sprintf("unop %v on %T", instr.Op, v))
}

func (x *Exec) binop(op token.Token, t types.Type, a, b Value) Value {
	switch av := a.(type) {
	case *Term:
		bv, ok := b.(*Term)
		if !ok {
			break
		}
		if av.W == 0 { // bool
			switch op {
			case token.EQL:
				return x.cx.Eq(av, bv)
			case token.NEQ:
				return x.cx.Not(x.cx.Eq(av, bv))
			case token.AND, token.LAND:
				return x.cx.And(av, bv)
			case token.OR, token.LOR:
				return x.cx.Or(av, bv)
			}
			panic("bool binop " + op.String())
		}
		_, signed, _ := intInfo(t)
		switch op {
		case token.ADD:
			return x.cx.Bin("bvadd", av, bv)
		case token.SUB:
			return x.cx.Bin("bvsub", av, bv)
		case token.MUL:
			return x.cx.Bin("bvmul", av, bv)
		case token.QUO, token.REM:
			if bv.IsConst() {
				if bv.C == 0 {
					x.goPanicRuntime("integer divide by zero")
				}
			} else if x.Decide(x.cx.Eq(bv, mkConst(bv.W, 0))) {
				x.goPanicRuntime("integer divide by zero")
			}
			if signed {
				if op == token.QUO {
					return x.cx.Bin("bvsdiv", av, bv)
				}
				return x.cx.Bin("bvsrem", av, bv)
			}
			if op == token.QUO {
				return x.cx.Bin("bvudiv", av, bv)
			}
			return x.cx.Bin("bvurem", av, bv)
		case token.AND:
			return x.cx.Bin("bvand", av, bv)
		case token.OR:
			return x.cx.Bin("bvor", av, bv)
		case token.XOR:
			return x.cx.Bin("bvxor", av, bv)
		case token.AND_NOT:
			return x.cx.Bin("bvand", av, x.cx.BvNot(bv))
		case token.SHL, token.SHR:
			// shift count may have different width/signedness; it was checked non-negative by ssa? (no)
			cnt := bv
			if cnt.W != av.W {
				if cnt.IsConst() {
					c := cnt.C
					if c > 64 {
						c = 64
					}
					cnt = mkConst(av.W, c)
					if av.W == 8 && c >= 8 {
						cnt = mkConst(8, 8)
					}
				} else if cnt.W < av.W {
					cnt = x.cx.ZExt(cnt, av.W)
				} else {
					// clamp: if cnt >= W then W else truncate
					big := x.cx.Cmp("bvuge", cnt, mkConst(cnt.W, uint64(av.W)))
					cnt = x.cx.Ite(big, mkConst(av.W, uint64(av.W)), x.cx.Extract(av.W-1, 0, cnt))
				}
			}
			if op == token.SHL {
				return x.cx.Bin("bvshl", av, cnt)
			}
			if signed {
				return x.cx.Bin("bvashr", av, cnt)
			}
			return x.cx.Bin("bvlshr", av, cnt)
		case token.EQL:
			return x.cx.Eq(av, bv)
		case token.NEQ:
			return x.cx.Not(x.cx.Eq(av, bv))
		case token.LSS:
			if signed {
				return x.cx.Cmp("bvslt", av, bv)
			}
			return x.cx.Cmp("bvult", av, bv)
		case token.LEQ:
			if signed {
				return x.cx.Cmp("bvsle", av, bv)
			}
			return x.cx.Cmp("bvule", av, bv)
		case token.GTR:
			if signed {
				return x.cx.Cmp("bvsgt", av, bv)
			}
			return x.cx.Cmp("bvugt", av, bv)
		case token.GEQ:
			if signed {
				return x.cx.Cmp("bvsge", av, bv)
			}
			return x.cx.Cmp("bvuge", av, bv)
		}
	case float64:
		bv := b.(float64)
		switch op {
		case token.ADD:
			return roundFloat(t, av+bv)
		case token.SUB:
			return roundFloat(t, av-bv)
		case token.MUL:
			return roundFloat(t, av*bv)
		case token.QUO:
			return roundFloat(t, av/bv)
		case token.EQL:
			return mkBool(av == bv)
		case token.NEQ:
			return mkBool(av != bv)
		case token.LSS:
			return mkBool(av < bv)
		case token.LEQ:
			return mkBool(av <= bv)
		case token.GTR:
			return mkBool(av > bv)
		case token.GEQ:
			return mkBool(av >= bv)
		}
	case Str:
		bv := b.(Str)
		switch op {
		case token.ADD:
			if av.B == nil && bv.B == nil {
				return Str{S: av.S + bv.S}
			}
			return normStr(append(append([]*Term(nil), av.bytes()...), bv.bytes()...))
		case token.EQL:
			return x.strEq(av, bv)
		case token.NEQ:
			return x.cx.Not(x.strEq(av, bv))
		case token.LSS:
			return x.strLess(av, bv, false)
		case token.LEQ:
			return x.strLess(av, bv, true)
		case token.GTR:
			return x.strLess(bv, av, false)
		case token.GEQ:
			return x.strLess(bv, av, true)
		}
	}
	switch op {
	case token.EQL:
		return x.equals(t, a, b)
	case token.NEQ:
		return x.cx.Not(x.equals(t, a, b))
	}
	panic(fmt.Sprintf("binop %v on %T, %T", op, a, b))
}

func (x *Exec) strEq(a, b Str) *Term {
	if a.Len() != b.Len() {
		return tFalse
	}
	if a.B == nil && b.B == nil {
		return mkBool(a.S == b.S)
	}
	r := tTrue
	ab, bb := a.bytes(), b.bytes()
	for i := range ab {
		r = x.cx.And(r, x.cx.Eq(ab[i], bb[i]))
		if r.IsFalse() {
			return r
		}
	}
	return r
}

// strLess: lexicographic a < b (or <= if orEq)
func (x *Exec) strLess(a, b Str, orEq bool) *Term {
	if a.B == nil && b.B == nil {
		if orEq {
			return mkBool(a.S <= b.S)
		}
		return mkBool(a.S < b.S)
	}
	ab, bb := a.bytes(), b.bytes()
	n := len(ab)
	if len(bb) < n {
		n = len(bb)
	}
	// result when common prefix equal
	var res *Term
	if orEq {
		res = mkBool(len(ab) <= len(bb))
	} else {
		res = mkBool(len(ab) < len(bb))
	}
	for i := n - 1; i >= 0; i-- {
		lt := x.cx.Cmp("bvult", ab[i], bb[i])
		eq := x.cx.Eq(ab[i], bb[i])
		res = x.cx.Or(lt, x.cx.And(eq, res))
	}
	return res
}

// equals: Go == on arbitrary comparable values; result is a Bool term.
func (x *Exec) equals(t types.Type, a, b Value) *Term {
	switch av := a.(type) {
	case *Term:
		return x.cx.Eq(av, b.(*Term))
	case float64:
		return mkBool(av == b.(float64))
	case complex128:
		return mkBool(av == b.(complex128))
	case Str:
		return x.strEq(av, b.(Str))
	case *Value:
		switch bv := b.(type) {
		case *Value:
			return mkBool(av == bv)
		case *SymPtr:
			return tFalse
		}
	case *SymPtr:
		panic(unsupported{"comparison of symbolic-index pointers"})
	case *Map:
		return mkBool(av == b.(*Map))
	case *Chan:
		return mkBool(av == b.(*Chan))
	case Struct:
		bv := b.(Struct)
		r := tTrue
		st, _ := t.Underlying().(*types.Struct)
		for i := range av {
			var ft types.Type
			if st != nil {
				if st.Field(i).Name() == "_" {
					continue
				}
				ft = st.Field(i).Type()
			}
			r = x.cx.And(r, x.equals(ft, av[i], bv[i]))
			if r.IsFalse() {
				return r
			}
		}
		return r
	case Array:
		bv := b.(Array)
		r := tTrue
		var et types.Type
		if at, ok := t.Underlying().(*types.Array); ok {
			et = at.Elem()
		}
		for i := range av {
			r = x.cx.And(r, x.equals(et, av[i], bv[i]))
			if r.IsFalse() {
				return r
			}
		}
		return r
	case Iface:
		bv := b.(Iface)
		if av.T == nil || bv.T == nil {
			return mkBool(av.T == nil && bv.T == nil)
		}
		if av.T == rtypeMarker || bv.T == rtypeMarker {
			if av.T != bv.T {
				return tFalse
			}
			return mkBool(types.Identical(av.V.(RType).T, bv.V.(RType).T))
		}
		if !types.Identical(av.T, bv.T) {
			return tFalse
		}
		if !types.Comparable(av.T) {
			x.goPanicRuntime("comparing uncomparable type " + av.T.String())
		}
		return x.equals(av.T, av.V, bv.V)
	case Slice:
		// only comparison with nil is legal
		bv := b.(Slice)
		if !bv.NotNil && len(bv.A) == 0 && cap(bv.A) == 0 {
			return mkBool(!av.NotNil)
		}
		return mkBool(!bv.NotNil)
	case *ssa.Function:
		switch bv := b.(type) {
		case *ssa.Function:
			return mkBool(av == bv)
		default:
			return mkBool(false)
		}
	case *Closure:
		if bf, ok := b.(*ssa.Function); ok && bf == nil {
			return tFalse
		}
		return mkBool(a == b)
	case *ssa.Builtin:
		return mkBool(a == b)
	case nil:
		return mkBool(b == nil)
	case RType:
		return mkBool(types.Identical(av.T, b.(RType).T))
	}
	panic(fmt.Sprintf("equals on %T, %T", a, b))
}

// ---- conversions

func (x *Exec) conv(dst, src types.Type, v Value) Value {
	ud := dst.Underlying()
	us := src.Underlying()
	// unsafe.Pointer conversions
	if b, ok := ud.(*types.Basic); ok && b.Kind() == types.UnsafePointer {
		return v
	}
	if b, ok := us.(*types.Basic); ok && b.Kind() == types.UnsafePointer {
		return v
	}
	switch udt := ud.(type) {
	case *types.Pointer, *types.Signature, *types.Map, *types.Chan, *types.Struct, *types.Array, *types.Interface:
		return v
	case *types.Slice:
		if s, ok := v.(Str); ok {
			eb, _ := udt.Elem().Underlying().(*types.Basic)
			switch eb.Kind() {
			case types.Uint8:
				bs := s.bytes()
				a := make([]Value, len(bs))
				for i, t := range bs {
					a[i] = t
				}
				return Slice{A: a, NotNil: true}
			case types.Int32:
				rs := x.decodeRunes(s)
				a := make([]Value, len(rs))
				for i, t := range rs {
					a[i] = t
				}
				return Slice{A: a, NotNil: true}
			}
		}
		return v
	case *types.Basic:
		switch vv := v.(type) {
		case *Term:
			if vv.W == 0 {
				return vv
			}
			_, ssigned, _ := intInfo(us)
			if dw, _, ok := intInfo(udt); ok {
				if dw == vv.W {
					return vv
				}
				if dw < vv.W {
					return x.cx.Extract(dw-1, 0, vv)
				}
				if ssigned {
					return x.cx.SExt(vv, dw)
				}
				return x.cx.ZExt(vv, dw)
			}
			if udt.Info()&types.IsFloat != 0 {
				c := x.concreteIntT(vv, "int to float conversion")
				if ssigned {
					return roundFloat(udt, float64(sext64(c, vv.W)))
				}
				return roundFloat(udt, float64(c))
			}
			if udt.Info()&types.IsString != 0 {
				// string(rune)
				return x.runeToString(vv, ssigned)
			}
		case float64:
			if dw, dsigned, ok := intInfo(udt); ok {
				return mkConst(dw, floatToInt(vv, dw, dsigned))
			}
			if udt.Info()&types.IsFloat != 0 {
				return roundFloat(udt, vv)
			}
		case complex128:
			return vv
		case Str:
			if udt.Info()&types.IsString != 0 {
				return vv
			}
		case Slice:
			if udt.Info()&types.IsString != 0 {
				eb, _ := us.(*types.Slice).Elem().Underlying().(*types.Basic)
				if eb.Kind() == types.Uint8 {
					bs := make([]*Term, len(vv.A))
					for i, e := range vv.A {
						bs[i] = e.(*Term)
					}
					return normStr(bs)
				}
				// []rune -> string
				var out []*Term
				for _, e := range vv.A {
					out = append(out, x.runeToString(e.(*Term), true).bytes()...)
				}
				return normStr(out)
			}
		}
	}
	panic(fmt.Sprintf("conv %v -> %v (%T)", src, dst, v))
}

func floatToInt(f float64, w int, signed bool) uint64 {
	if f != f {
		return 1 << 63
	}
	if signed {
		if f >= 9.223372036854775807e18 || f <= -9.223372036854775808e18 {
			return 1 << 63
		}
		return uint64(int64(f))
	}
	if f < 0 {
		return uint64(int64(f))
	}
	if f >= 1.8446744073709551615e19 {
		return 1 << 63
	}
	return uint64(f)
}

func (x *Exec) concreteIntT(t *Term, what string) uint64 {
	if t.IsConst() {
		return t.C
	}
	return x.Concretize(t, what)
}

// runeToString: UTF-8 encoding of a (possibly symbolic) integer; forks on encoded length.
func (x *Exec) runeToString(r *Term, signed bool) Str {
	if r.W != 32 {
		if r.W < 32 {
			if signed {
				r = x.cx.SExt(r, 32)
			} else {
				r = x.cx.ZExt(r, 32)
			}
		} else {
			// out-of-range values become U+FFFD
			fits := x.cx.Cmp("bvult", r, mkConst(r.W, 0x110000))
			r = x.cx.Ite(fits, x.cx.Extract(31, 0, r), mkConst(32, 0xFFFD))
		}
	}
	if r.IsConst() {
		return Str{S: string(rune(int32(r.C)))}
	}
	cx := x.cx
	c := func(v uint64) *Term { return mkConst(32, v) }
	b8 := func(t *Term) *Term { return cx.Extract(7, 0, t) }
	shr := func(t *Term, n uint64) *Term { return cx.Bin("bvlshr", t, c(n)) }
	or := func(a *Term, v uint64) *Term { return cx.Bin("bvor", a, c(v)) }
	and := func(a *Term, v uint64) *Term { return cx.Bin("bvand", a, c(v)) }
	if x.Decide(cx.Cmp("bvult", r, c(0x80))) {
		return normStr([]*Term{b8(r)})
	}
	if x.Decide(cx.Cmp("bvult", r, c(0x800))) {
		return normStr([]*Term{b8(or(shr(r, 6), 0xC0)), b8(or(and(r, 0x3F), 0x80))})
	}
	// invalid: surrogates or > MaxRune
	surr := cx.And(cx.Cmp("bvuge", r, c(0xD800)), cx.Cmp("bvule", r, c(0xDFFF)))
	big := cx.Cmp("bvugt", r, c(0x10FFFF))
	if x.Decide(cx.Or(surr, big)) {
		return Str{S: "�"}
	}
	if x.Decide(cx.Cmp("bvult", r, c(0x10000))) {
		return normStr([]*Term{b8(or(shr(r, 12), 0xE0)), b8(or(and(shr(r, 6), 0x3F), 0x80)), b8(or(and(r, 0x3F), 0x80))})
	}
	return normStr([]*Term{b8(or(shr(r, 18), 0xF0)), b8(or(and(shr(r, 12), 0x3F), 0x80)), b8(or(and(shr(r, 6), 0x3F), 0x80)), b8(or(and(r, 0x3F), 0x80))})
}

// decodeRune decodes one rune at s[pos:], forking along utf8.DecodeRune's cases.
// Returns (rune term 32-bit, size).
func (x *Exec) decodeRune(s Str, pos int) (*Term, int) {
	n := s.Len() - pos
	if n <= 0 {
		return mkConst(32, 0xFFFD), 0
	}
	if s.B == nil {
		r, sz := utf8.DecodeRuneInString(s.S[pos:])
		return mkConst(32, uint64(uint32(r))), sz
	}
	allc := true
	lim := n
	if lim > 4 {
		lim = 4
	}
	for i := 0; i < lim; i++ {
		if !s.B[pos+i].IsConst() {
			allc = false
		}
	}
	if allc {
		var buf [4]byte
		for i := 0; i < lim; i++ {
			buf[i] = byte(s.B[pos+i].C)
		}
		r, sz := utf8.DecodeRune(buf[:lim])
		return mkConst(32, uint64(uint32(r))), sz
	}
	cx := x.cx
	c8 := func(v uint64) *Term { return mkConst(8, v) }
	b0 := s.B[pos]
	inr := func(b *Term, lo, hi uint64) *Term {
		return cx.And(cx.Cmp("bvuge", b, c8(lo)), cx.Cmp("bvule", b, c8(hi)))
	}
	z32 := func(b *Term, m uint64) *Term { return cx.ZExt(cx.Bin("bvand", b, c8(m)), 32) }
	shl := func(t *Term, k uint64) *Term { return cx.Bin("bvshl", t, mkConst(32, k)) }
	or := func(a, b *Term) *Term { return cx.Bin("bvor", a, b) }
	bad := func() (*Term, int) { return mkConst(32, 0xFFFD), 1 }
	if x.Decide(cx.Cmp("bvult", b0, c8(0x80))) {
		return cx.ZExt(b0, 32), 1
	}
	if x.Decide(inr(b0, 0xC2, 0xDF)) {
		if n < 2 || !x.Decide(inr(s.B[pos+1], 0x80, 0xBF)) {
			return bad()
		}
		return or(shl(z32(b0, 0x1F), 6), z32(s.B[pos+1], 0x3F)), 2
	}
	if x.Decide(inr(b0, 0xE0, 0xEF)) {
		if n < 2 {
			return bad()
		}
		// second byte range depends on b0
		lo := cx.Ite(cx.Eq(b0, c8(0xE0)), c8(0xA0), c8(0x80))
		hi := cx.Ite(cx.Eq(b0, c8(0xED)), c8(0x9F), c8(0xBF))
		b1 := s.B[pos+1]
		if !x.Decide(cx.And(cx.Cmp("bvuge", b1, lo), cx.Cmp("bvule", b1, hi))) {
			return bad()
		}
		if n < 3 || !x.Decide(inr(s.B[pos+2], 0x80, 0xBF)) {
			return bad()
		}
		return or(or(shl(z32(b0, 0x0F), 12), shl(z32(b1, 0x3F), 6)), z32(s.B[pos+2], 0x3F)), 3
	}
	if x.Decide(inr(b0, 0xF0, 0xF4)) {
		if n < 2 {
			return bad()
		}
		lo := cx.Ite(cx.Eq(b0, c8(0xF0)), c8(0x90), c8(0x80))
		hi := cx.Ite(cx.Eq(b0, c8(0xF4)), c8(0x8F), c8(0xBF))
		b1 := s.B[pos+1]
		if !x.Decide(cx.And(cx.Cmp("bvuge", b1, lo), cx.Cmp("bvule", b1, hi))) {
			return bad()
		}
		if n < 3 || !x.Decide(inr(s.B[pos+2], 0x80, 0xBF)) {
			return bad()
		}
		if n < 4 || !x.Decide(inr(s.B[pos+3], 0x80, 0xBF)) {
			return bad()
		}
		return or(or(or(shl(z32(b0, 0x07), 18), shl(z32(b1, 0x3F), 12)), shl(z32(s.B[pos+2], 0x3F), 6)), z32(s.B[pos+3], 0x3F)), 4
	}
	return bad()
}

func (x *Exec) decodeRunes(s Str) []*Term {
	var out []*Term
	for pos := 0; pos < s.Len(); {
		r, sz := x.decodeRune(s, pos)
		out = append(out, r)
		pos += sz
	}
	return out
}

// ---- maps

func newMap(kt types.Type) *Map {
	return &Map{idx: map[interface{}]int{}, ktype: kt}
}

type hkIface struct {
	t string
	k interface{}
}

// hashKey returns a native hashable key for concrete values.
func hashKey(v Value) (interface{}, bool) {
	switch v := v.(type) {
	case *Term:
		if v.IsConst() {
			return [2]uint64{uint64(v.W), v.C}, true
		}
		return nil, false
	case Str:
		if v.B == nil {
			return v.S, true
		}
		return nil, false
	case float64:
		return v, true
	case *Value:
		return v, true
	case *Map:
		return v, true
	case *Chan:
		return v, true
	case Iface:
		if v.T == nil {
			return hkIface{}, true
		}
		k, ok := hashKey(v.V)
		if !ok {
			return nil, false
		}
		return hkIface{types.TypeString(v.T, nil), k}, true
	case Struct:
		var sb strings.Builder
		for _, f := range v {
			k, ok := hashKey(f)
			if !ok {
				return nil, false
			}
			fmt.Fprintf(&sb, "%T:%v|", k, k)
		}
		return "struct:" + sb.String(), true
	case Array:
		var sb strings.Builder
		for _, f := range v {
			k, ok := hashKey(f)
			if !ok {
				return nil, false
			}
			fmt.Fprintf(&sb, "%T:%v|", k, k)
		}
		return "array:" + sb.String(), true
	case RType:
		return "rtype:" + types.TypeString(v.T, nil), true
	}
	return nil, false
}

// mapFind returns the position of key k or -1; forks on symbolic equality.
func (x *Exec) mapFind(m *Map, k Value) int {
	if hk, ok := hashKey(k); ok {
		if i, ok := m.idx[hk]; ok {
			return i
		}
		for _, i := range m.symKeys {
			if m.live[i] && x.Decide(x.equals(m.ktype, m.keys[i], k)) {
				return i
			}
		}
		return -1
	}
	for i := range m.keys {
		if m.live[i] && x.Decide(x.equals(m.ktype, m.keys[i], k)) {
			return i
		}
	}
	return -1
}

func (x *Exec) mapInsert(m *Map, k, v Value) {
	if i := x.mapFind(m, k); i >= 0 {
		m.vals[i] = v
		return
	}
	pos := len(m.keys)
	m.keys = append(m.keys, copyVal(k))
	m.vals = append(m.vals, v)
	m.live = append(m.live, true)
	m.n++
	if hk, ok := hashKey(k); ok {
		m.idx[hk] = pos
	} else {
		m.symKeys = append(m.symKeys, pos)
	}
}

func (x *Exec) mapDelete(m *Map, k Value) {
	if m == nil {
		return
	}
	i := x.mapFind(m, k)
	if i < 0 {
		return
	}
	m.live[i] = false
	m.n--
	if hk, ok := hashKey(m.keys[i]); ok {
		delete(m.idx, hk)
	} else {
		for j, p := range m.symKeys {
			if p == i {
				m.symKeys = append(m.symKeys[:j:j], m.symKeys[j+1:]...)
				break
			}
		}
	}
}

func (x *Exec) lookup(instr *ssa.Lookup, xv, idx Value) Value {
	switch xv := xv.(type) {
	case *Map:
		var v Value
		ok := false
		if xv != nil {
			if i := x.mapFind(xv, idx); i >= 0 {
				v = copyVal(xv.vals[i])
				ok = true
			}
		}
		if !ok {
			v = zero(instr.X.Type().Underlying().(*types.Map).Elem())
		}
		if instr.CommaOk {
			return Tuple{v, mkBool(ok)}
		}
		return v
	case Str:
		// string index (Lookup is also used for s[i])
		it := x.toInt64Term(idx.(*Term), instr.Index.Type())
		n := xv.Len()
		if it.IsConst() {
			i := it.Sval()
			if i < 0 || i >= int64(n) {
				x.goPanicRuntime(fmt.Sprintf("index out of range [%d] with length %d", i, n))
			}
			return xv.byteAt(int(i))
		}
		x.boundsCheck(it, n)
		res := xv.byteAt(n - 1)
		for i := n - 2; i >= 0; i-- {
			res = x.cx.Ite(x.cx.Eq(it, mkConst(64, uint64(i))), xv.byteAt(i), res)
		}
		return res
	}
	panic(fmt.Sprintf("lookup on %T", xv))
}

func (x *Exec) rangeIter(v Value) Value {
	switch v := v.(type) {
	case *Map:
		it := &MapIter{m: v}
		if v != nil && x.mapOrderNondet && v.n > 1 && v.n <= 4 {
			// nondeterministic order: choose a permutation by successive symbolic choices
			var liveIdx []int
			for i := range v.keys {
				if v.live[i] {
					liveIdx = append(liveIdx, i)
				}
			}
			var ord []int
			for len(liveIdx) > 1 {
				k := x.Choose(len(liveIdx), "map order")
				ord = append(ord, liveIdx[k])
				liveIdx = append(liveIdx[:k:k], liveIdx[k+1:]...)
			}
			ord = append(ord, liveIdx[0])
			it.ord = ord
		}
		return it
	case Str:
		return &StrIter{s: v}
	}
	panic(fmt.Sprintf("range over %T", v))
}

func (x *Exec) iterNext(fr *frame, instr *ssa.Next, it Value) Value {
	switch it := it.(type) {
	case *MapIter:
		if it.m == nil {
			return Tuple{tFalse, nil, nil}
		}
		if it.ord != nil {
			for it.pos < len(it.ord) {
				i := it.ord[it.pos]
				it.pos++
				if it.m.live[i] {
					return Tuple{tTrue, copyVal(it.m.keys[i]), copyVal(it.m.vals[i])}
				}
			}
			return Tuple{tFalse, nil, nil}
		}
		for it.pos < len(it.m.keys) {
			i := it.pos
			it.pos++
			if it.m.live[i] {
				return Tuple{tTrue, copyVal(it.m.keys[i]), copyVal(it.m.vals[i])}
			}
		}
		return Tuple{tFalse, nil, nil}
	case *StrIter:
		if it.pos >= it.s.Len() {
			return Tuple{tFalse, mkConst(64, 0), mkConst(32, 0)}
		}
		r, sz := x.decodeRune(it.s, it.pos)
		p := it.pos
		it.pos += sz
		return Tuple{tTrue, mkConst(64, uint64(p)), r}
	}
	panic(fmt.Sprintf("next on %T", it))
}

// ---- builtins

func (x *Exec) callBuiltin(caller *frame, fn *ssa.Builtin, args []Value) Value {
	switch fn.Name() {
	case "append":
		if len(args) == 1 {
			return args[0]
		}
		dst := args[0].(Slice)
		var src []Value
		switch s := args[1].(type) {
		case Slice:
			src = s.A
		case Str:
			for _, b := range s.bytes() {
				src = append(src, b)
			}
		}
		if len(src) == 0 {
			return dst
		}
		n := len(dst.A)
		if n+len(src) <= cap(dst.A) {
			a := dst.A[:n+len(src)]
			for i, v := range src {
				a[n+i] = copyVal(v)
			}
			return Slice{A: a, NotNil: true}
		}
		// grow: Go's growth policy approximated (doubling); capacity is observable via cap()
		nc := cap(dst.A) * 2
		if nc < n+len(src) {
			nc = n + len(src)
		}
		a := make([]Value, n+len(src), nc)
		copy(a, dst.A)
		for i, v := range src {
			a[n+i] = copyVal(v)
		}
		// fill spare capacity with zero of elem type lazily: use nil marker replaced on reslice
		if nc > n+len(src) {
			et := fn.Type().(*types.Signature).Params().At(0).Type().Underlying().(*types.Slice).Elem()
			full := a[:nc]
			for i := n + len(src); i < nc; i++ {
				full[i] = zero(et)
			}
		}
		return Slice{A: a, NotNil: true}
	case "copy":
		dst := args[0].(Slice)
		var n int
		switch s := args[1].(type) {
		case Slice:
			n = len(s.A)
			if len(dst.A) < n {
				n = len(dst.A)
			}
			if n > 0 && len(dst.A) > 0 && len(s.A) > 0 {
				// handle overlap like memmove
				tmp := make([]Value, n)
				for i := 0; i < n; i++ {
					tmp[i] = copyVal(s.A[i])
				}
				copy(dst.A, tmp)
			}
		case Str:
			bs := s.bytes()
			n = len(bs)
			if len(dst.A) < n {
				n = len(dst.A)
			}
			for i := 0; i < n; i++ {
				dst.A[i] = bs[i]
			}
		}
		return mkConst(64, uint64(n))
	case "close":
		x.chanClose(args[0].(*Chan))
		return nil
	case "delete":
		x.mapDelete(args[0].(*Map), args[1])
		return nil
	case "print", "println":
		return nil
	case "len":
		switch a := args[0].(type) {
		case Str:
			return mkConst(64, uint64(a.Len()))
		case Array:
			return mkConst(64, uint64(len(a)))
		case *Value:
			if a == nil {
				// len of nil *array is the array length, from the type
				at := fn.Type().(*types.Signature).Params().At(0).Type().Underlying().(*types.Pointer).Elem().Underlying().(*types.Array)
				return mkConst(64, uint64(at.Len()))
			}
			return mkConst(64, uint64(len((*a).(Array))))
		case Slice:
			return mkConst(64, uint64(len(a.A)))
		case *Map:
			if a == nil {
				return mkConst(64, 0)
			}
			return mkConst(64, uint64(a.n))
		case *Chan:
			if a == nil {
				return mkConst(64, 0)
			}
			return mkConst(64, uint64(len(a.buf)))
		}
	case "cap":
		switch a := args[0].(type) {
		case Array:
			return mkConst(64, uint64(len(a)))
		case *Value:
			return mkConst(64, uint64(len((*a).(Array))))
		case Slice:
			return mkConst(64, uint64(cap(a.A)))
		case *Chan:
			if a == nil {
				return mkConst(64, 0)
			}
			return mkConst(64, uint64(a.cap))
		}
	case "min", "max":
		res := args[0]
		for _, a := range args[1:] {
			switch rv := res.(type) {
			case *Term:
				pt := fn.Type().(*types.Signature).Params().At(0).Type()
				_, signed, _ := intInfo(pt)
				var lt *Term
				op := "bvult"
				if signed {
					op = "bvslt"
				}
				if fn.Name() == "min" {
					lt = x.cx.Cmp(op, a.(*Term), rv)
				} else {
					lt = x.cx.Cmp(op, rv, a.(*Term))
				}
				res = x.cx.Ite(lt, a.(*Term), rv)
			case float64:
				if fn.Name() == "min" {
					res = math.Min(rv, a.(float64))
				} else {
					res = math.Max(rv, a.(float64))
				}
			case Str:
				lt := x.strLess(a.(Str), rv, false)
				if fn.Name() == "max" {
					lt = x.strLess(rv, a.(Str), false)
				}
				if x.Decide(lt) {
					res = a
				}
			}
		}
		return res
	case "clear":
		switch a := args[0].(type) {
		case *Map:
			if a != nil {
				a.keys, a.vals, a.live, a.symKeys, a.n = nil, nil, nil, nil, 0
				a.idx = map[interface{}]int{}
			}
		case Slice:
			et := fn.Type().(*types.Signature).Params().At(0).Type().Underlying().(*types.Slice).Elem()
			for i := range a.A {
				a.A[i] = zero(et)
			}
		}
		return nil
	case "panic":
		x.goPanic(args[0])
	case "recover":
		return x.doRecover(caller)
	case "ssa:wrapnilchk":
		recv := args[0]
		if p, ok := recv.(*Value); ok && p == nil {
			x.goPanicRuntime(fmt.Sprintf("value method %s.%s called using nil *%s pointer", valString(args[1]), valString(args[2]), valString(args[1])))
		}
		return recv
	case "ssa:deferstack":
		panic(unsupported{"ssa:deferstack"})
	case "real", "imag", "complex":
		panic(unsupported{"complex builtin"})
	case "Sizeof", "Alignof", "Offsetof":
		panic(unsupported{"unsafe." + fn.Name()})
	case "String":
		// unsafe.String(ptr, len)
		p := args[0]
		n := x.concreteInt(args[1], "unsafe.String len")
		return x.unsafeBytes(p, n, true)
	case "StringData", "SliceData":
		switch a := args[0].(type) {
		case Slice:
			if len(a.A) == 0 && cap(a.A) == 0 {
				return (*Value)(nil)
			}
			return &unsafeData{slice: a.A[:cap(a.A)]}
		case Str:
			return &unsafeData{str: a}
		}
	case "Slice":
		p := args[0]
		n := x.concreteInt(args[1], "unsafe.Slice len")
		return x.unsafeBytes(p, n, false)
	}
	panic(unsupported{"builtin " + fn.Name() + fmt.Sprintf(" on %T", args[0])})
}

// unsafeData: result of unsafe.SliceData/StringData, only usable by unsafe.String/Slice.
type unsafeData struct {
	slice []Value
	str   Str
}

func (x *Exec) unsafeBytes(p Value, n int64, asString bool) Value {
	switch p := p.(type) {
	case *unsafeData:
		if p.slice != nil {
			if asString {
				bs := make([]*Term, n)
				for i := range bs {
					bs[i] = p.slice[i].(*Term)
				}
				return normStr(bs)
			}
			return Slice{A: p.slice[:n:n], NotNil: true}
		}
		if asString {
			return p.str.slice(0, int(n))
		}
		bs := p.str.bytes()
		a := make([]Value, n)
		for i := range a {
			a[i] = bs[i]
		}
		return Slice{A: a, NotNil: true}
	case *Value:
		if p == nil || n == 0 {
			if asString {
				return Str{}
			}
			return Slice{}
		}
	}
	panic(unsupported{fmt.Sprintf("unsafe.String/Slice on %T", p)})
}

func (x *Exec) doRecover(caller *frame) Value {
	// recover() is called from a deferred function; caller is that function's
	// frame, and caller.caller is the panicking frame.
	if caller == nil || caller.caller == nil {
		return Iface{}
	}
	fr := caller.caller
	if fr.panicking {
		fr.panicking = false
		if tp, ok := fr.panicVal.(targetPanic); ok {
			if i, ok := tp.v.(Iface); ok {
				return i
			}
			return Iface{T: types.Typ[types.String], V: Str{S: valString(tp.v)}}
		}
	}
	return Iface{}
}

var _ = strconv.Itoa
