package main

// Cooperative thread model: every interpreted goroutine runs on its own Go
// goroutine but only one runs at a time; control changes hands only at
// scheduling points (sync primitives, channel operations, verifrt.Yield, thread
// exit). The choice of the next thread is a symbolic input, concretised by forking,
// so all interleavings of scheduling points within the bounds are explored.
// Assumption (stated in evidence): code between two scheduling points is atomic
// (data-race-free programs, sequential consistency).

import (
	"fmt"
	"go/types"

	"golang.org/x/tools/go/ssa"
)

type thread struct {
	id       int
	resume   chan bool // true = run, false = die
	done     bool
	started  bool
	fn       Value
	args     []Value
	enabled  func() bool // nil = runnable
	curFrame *frame
	caller   *frame
	waitDesc string
}

type threadState struct {
	threads []*thread
	cur     *thread
	back    chan interface{} // a thread reports a panic value (or nil on yield/finish) to whoever resumed... unused
	abort   interface{}
	steps   int
}

type threadKilled struct{}

type lockState struct {
	writer  bool
	readers int
	owner   int
}

func (x *Exec) ensureThreads() *threadState {
	if x.threads == nil {
		main := &thread{id: 0, resume: make(chan bool), started: true}
		x.threads = &threadState{threads: []*thread{main}, cur: main}
	}
	return x.threads
}

func (x *Exec) spawn(fr *frame, fn Value, args []Value) {
	if !x.threadsEnabled {
		panic(unsupported{"go statement outside the thread model (harness must call verifrt.EnableThreads)"})
	}
	ts := x.ensureThreads()
	t := &thread{id: len(ts.threads), resume: make(chan bool), fn: fn, args: args, caller: fr}
	ts.threads = append(ts.threads, t)
	live := 0
	for _, o := range ts.threads {
		if !o.done {
			live++
		}
	}
	if live > 8 || len(ts.threads) > 32 {
		x.abort(Unwind, "more than 8 live (32 total) threads")
	}
}

// switchTo hands control to thread t and parks the current thread until resumed.
func (x *Exec) switchTo(t *thread) {
	ts := x.threads
	me := ts.cur
	if t == me {
		return
	}
	me.curFrame = x.curFrame
	ts.cur = t
	x.curFrame = t.curFrame
	if !t.started {
		t.started = true
		go x.threadMain(t)
	} else {
		t.resume <- true
	}
	if me.done {
		return
	}
	if ok := <-me.resume; !ok {
		panic(threadKilled{})
	}
	if ts.abort != nil {
		// only the main thread propagates aborts
		if me.id == 0 {
			a := ts.abort
			panic(a)
		}
		panic(threadKilled{})
	}
	ts.cur = me
	x.curFrame = me.curFrame
}

func (x *Exec) threadMain(t *thread) {
	ts := x.threads
	defer func() {
		r := recover()
		t.done = true
		if r != nil {
			if _, killed := r.(threadKilled); killed {
				return
			}
			// propagate to main thread
			if tp, ok := r.(targetPanic); ok {
				// uncaught panic in a goroutine crashes the program
				r = tp
			}
			ts.abort = r
			main := ts.threads[0]
			ts.cur = main
			main.resume <- true
			return
		}
		// normal exit: schedule someone else. Choosing the next thread can itself end the path
		// (scheduling bound, infeasible choice): hand that to the main thread.
		func() {
			defer func() {
				if r2 := recover(); r2 != nil {
					if _, killed := r2.(threadKilled); killed {
						return
					}
					ts.abort = r2
					main := ts.threads[0]
					ts.cur = main
					main.resume <- true
				}
			}()
			x.threadExit(t)
		}()
	}()
	x.call(t.caller, t.fn, t.args)
}

func (x *Exec) threadExit(t *thread) {
	ts := x.threads
	// pick next enabled thread
	var en []*thread
	for _, o := range ts.threads {
		if !o.done && (o.enabled == nil || o.enabled()) {
			en = append(en, o)
		}
	}
	if len(en) == 0 {
		// everyone blocked or done: wake main to detect
		ts.abort = pathAbort{Deadlock, x.deadlockDesc()}
		for _, o := range ts.threads {
			if !o.done {
				ts.abort = pathAbort{Deadlock, x.deadlockDesc()}
			}
		}
		main := ts.threads[0]
		if main.done {
			ts.abort = nil
		}
		ts.cur = main
		main.resume <- true
		return
	}
	next := x.pickThread(en)
	ts.cur = next
	x.curFrame = next.curFrame
	if !next.started {
		next.started = true
		go x.threadMain(next)
	} else {
		next.resume <- true
	}
}

func (x *Exec) deadlockDesc() string {
	s := "all threads blocked:"
	for _, o := range x.threads.threads {
		if !o.done {
			s += fmt.Sprintf(" t%d(%s)", o.id, o.waitDesc)
		}
	}
	return s
}

func (x *Exec) pickThread(en []*thread) *thread {
	if len(en) == 1 || x.canonSched {
		return en[0]
	}
	x.threads.steps++
	if x.threads.steps > x.schedBound() {
		x.abort(Unwind, fmt.Sprintf("more than %d scheduling decisions", x.schedBound()))
	}
	return en[x.Choose(len(en), "schedule")]
}

func (x *Exec) schedBound() int {
	if x.maxSched > 0 {
		return x.maxSched
	}
	return 64
}

// schedPoint: any enabled thread (including the current one) may run next.
func (x *Exec) schedPoint() {
	ts := x.threads
	if ts == nil || len(ts.threads) == 1 {
		return
	}
	var en []*thread
	for _, o := range ts.threads {
		if !o.done && (o == ts.cur || o.enabled == nil || o.enabled()) {
			en = append(en, o)
		}
	}
	// preemption bounding (stated in the harness): once the bound is used up the running thread
	// keeps running at scheduling points where it could continue
	// (a negative bound means no preemption at all; 0 means unbounded)
	if x.preemptBound < 0 || (x.preemptBound > 0 && x.preemptions >= x.preemptBound) {
		return
	}
	next := x.pickThread(en)
	if next != ts.cur {
		x.preemptions++
	}
	x.switchTo(next)
}

func (x *Exec) yield(fr *frame) { x.schedPoint() }

// blockUntil parks the current thread until pred holds.
func (x *Exec) blockUntil(pred func() bool, desc string) {
	for !pred() {
		ts := x.threads
		if ts == nil || len(ts.threads) == 1 {
			x.abort(Deadlock, "single thread blocked on "+desc+x.whereStr())
		}
		me := ts.cur
		me.enabled = pred
		me.waitDesc = desc
		var en []*thread
		for _, o := range ts.threads {
			if !o.done && o != me && (o.enabled == nil || o.enabled()) {
				en = append(en, o)
			}
		}
		if len(en) == 0 {
			x.abort(Deadlock, x.deadlockDesc()+x.whereStr())
		}
		next := x.pickThread(en)
		x.switchTo(next)
		me.enabled = nil
	}
}

// finishAll runs remaining threads to completion after the harness function returned.
func (x *Exec) finishAllThreads() {
	ts := x.threads
	if ts == nil {
		return
	}
	main := ts.threads[0]
	for {
		pending := false
		for _, o := range ts.threads[1:] {
			if !o.done {
				pending = true
			}
		}
		if !pending {
			break
		}
		x.blockUntil(func() bool {
			for _, o := range ts.threads[1:] {
				if !o.done {
					return false
				}
			}
			return true
		}, "harness end (waiting for threads)")
	}
	main.done = true
}

func (ts *threadState) finishAll(x *Exec) { x.finishAllThreads() }

// killThreads releases parked goroutines at path end.
func (x *Exec) killThreads() {
	ts := x.threads
	if ts == nil {
		return
	}
	for _, o := range ts.threads[1:] {
		if o.started && !o.done {
			select {
			case o.resume <- false:
			default:
				// thread is not parked on resume (it is the one that aborted); ignore
			}
		}
	}
}

// ---- mutexes

func (x *Exec) lockOf(addr Value) *lockState {
	p := addr.(*Value)
	if p == nil {
		x.goPanicRuntime("invalid memory address or nil pointer dereference")
	}
	if x.locks == nil {
		x.locks = map[*Value]*lockState{}
	}
	ls := x.locks[p]
	if ls == nil {
		ls = &lockState{}
		x.locks[p] = ls
	}
	return ls
}

func (x *Exec) curThreadID() int {
	if x.threads == nil {
		return 0
	}
	return x.threads.cur.id
}

func (x *Exec) mutexLock(fr *frame, addr Value, read bool) {
	ls := x.lockOf(addr)
	x.schedPoint()
	if read {
		x.blockUntil(func() bool { return !ls.writer }, "RLock")
		ls.readers++
		return
	}
	x.blockUntil(func() bool { return !ls.writer && ls.readers == 0 }, "Lock")
	ls.writer = true
	ls.owner = x.curThreadID()
}

func (x *Exec) mutexTryLock(fr *frame, addr Value) Value {
	ls := x.lockOf(addr)
	x.schedPoint()
	if ls.writer || ls.readers > 0 {
		return tFalse
	}
	ls.writer = true
	ls.owner = x.curThreadID()
	return tTrue
}

func (x *Exec) mutexUnlock(fr *frame, addr Value, read bool) {
	ls := x.lockOf(addr)
	if read {
		if ls.readers <= 0 {
			x.goPanic(Iface{T: types.Typ[types.String], V: Str{S: "fatal error: sync: RUnlock of unlocked RWMutex"}})
		}
		ls.readers--
	} else {
		if !ls.writer {
			x.goPanic(Iface{T: types.Typ[types.String], V: Str{S: "fatal error: sync: unlock of unlocked mutex"}})
		}
		ls.writer = false
	}
	// no scheduling point after a release: the next visible operation of this thread (lock,
	// channel operation, yield, exit) is one, and the code in between is thread-local (DRF-SC)
}

// ---- WaitGroup

func (x *Exec) wgAdd(fr *frame, addr Value, d int64) {
	p := addr.(*Value)
	if x.wgs == nil {
		x.wgs = map[*Value]int64{}
	}
	x.wgs[p] += d
	if x.wgs[p] < 0 {
		x.goPanic(Iface{T: types.Typ[types.String], V: Str{S: "sync: negative WaitGroup counter"}})
	}
	if d < 0 {
		x.schedPoint()
	}
}

func (x *Exec) wgWait(fr *frame, addr Value) {
	p := addr.(*Value)
	if x.wgs == nil {
		x.wgs = map[*Value]int64{}
	}
	x.blockUntil(func() bool { return x.wgs[p] == 0 }, "WaitGroup.Wait")
}

// ---- channels

func (x *Exec) chanSend(fr *frame, c *Chan, v Value) {
	if c == nil {
		x.blockUntil(func() bool { return false }, "send on nil channel")
	}
	x.schedPoint()
	if c.closed {
		x.goPanic(Iface{T: types.Typ[types.String], V: Str{S: "send on closed channel"}})
	}
	if c.cap > 0 {
		x.blockUntil(func() bool { return len(c.buf) < c.cap || c.closed }, "chan send (full)")
		if c.closed {
			x.goPanic(Iface{T: types.Typ[types.String], V: Str{S: "send on closed channel"}})
		}
		c.buf = append(c.buf, copyVal(v))
		return
	}
	// unbuffered: deposit, then wait until taken
	x.blockUntil(func() bool { return len(c.buf) == 0 || c.closed }, "chan send (unbuffered, slot busy)")
	if c.closed {
		x.goPanic(Iface{T: types.Typ[types.String], V: Str{S: "send on closed channel"}})
	}
	c.buf = append(c.buf, copyVal(v))
	c.pendingSend++
	mark := c.taken
	x.blockUntil(func() bool { return c.taken > mark }, "chan send (unbuffered, no receiver)")
}

func (x *Exec) chanTake(c *Chan) Value {
	v := c.buf[0]
	c.buf = c.buf[1:]
	if c.cap == 0 {
		c.taken++
		c.pendingSend--
	}
	return v
}

func (x *Exec) chanRecv(fr *frame, c *Chan, commaOk bool) Value {
	if c == nil {
		x.blockUntil(func() bool { return false }, "receive on nil channel")
	}
	x.schedPoint()
	x.blockUntil(func() bool { return len(c.buf) > 0 || c.closed }, "chan receive")
	var v Value
	ok := false
	if len(c.buf) > 0 {
		v = x.chanTake(c)
		ok = true
	} else {
		v = zero(c.elem)
	}
	if commaOk {
		return Tuple{v, mkBool(ok)}
	}
	return v
}

func (x *Exec) chanClose(c *Chan) {
	if c == nil {
		x.goPanic(Iface{T: types.Typ[types.String], V: Str{S: "close of nil channel"}})
	}
	if c.closed {
		x.goPanic(Iface{T: types.Typ[types.String], V: Str{S: "close of closed channel"}})
	}
	c.closed = true
	x.schedPoint()
}

func (x *Exec) selectOp(fr *frame, instr *ssa.Select) Value {
	x.schedPoint()
	type cs struct {
		c    *Chan
		send bool
		val  Value
	}
	var cases []cs
	for _, st := range instr.States {
		c, _ := fr.get(st.Chan).(*Chan)
		k := cs{c: c, send: st.Dir == types.SendOnly}
		if k.send {
			k.val = fr.get(st.Send)
		}
		cases = append(cases, k)
	}
	ready := func() []int {
		var r []int
		for i, k := range cases {
			if k.c == nil {
				continue
			}
			if k.send {
				if k.c.closed || (k.c.cap > 0 && len(k.c.buf) < k.c.cap) || (k.c.cap == 0 && k.c.waitingRecv > 0 && len(k.c.buf) == 0) {
					r = append(r, i)
				}
			} else if len(k.c.buf) > 0 || k.c.closed {
				r = append(r, i)
			}
		}
		return r
	}
	rd := ready()
	if len(rd) == 0 {
		if !instr.Blocking {
			return x.selectResult(instr, -1, nil, false)
		}
		for _, k := range cases {
			if k.c != nil && !k.send {
				k.c.waitingRecv++
			}
		}
		x.blockUntil(func() bool { return len(ready()) > 0 }, "select")
		for _, k := range cases {
			if k.c != nil && !k.send {
				k.c.waitingRecv--
			}
		}
		rd = ready()
	}
	// several ready cases: Go picks pseudo-randomly => nondeterministic choice
	chosen := rd[0]
	if len(rd) > 1 {
		chosen = rd[x.Choose(len(rd), "select choice")]
	}
	k := cases[chosen]
	if k.send {
		if k.c.closed {
			x.goPanic(Iface{T: types.Typ[types.String], V: Str{S: "send on closed channel"}})
		}
		k.c.buf = append(k.c.buf, copyVal(k.val))
		if k.c.cap == 0 {
			k.c.pendingSend++
		}
		return x.selectResult(instr, chosen, nil, false)
	}
	if len(k.c.buf) > 0 {
		v := x.chanTake(k.c)
		return x.selectResult(instr, chosen, v, true)
	}
	return x.selectResult(instr, chosen, nil, false)
}

func (x *Exec) selectResult(instr *ssa.Select, chosen int, recv Value, recvOk bool) Value {
	r := Tuple{mkConst(64, uint64(int64(chosen))), mkBool(recvOk)}
	for i, st := range instr.States {
		if st.Dir == types.RecvOnly {
			var v Value
			if i == chosen && recvOk {
				v = recv
			} else {
				v = zero(st.Chan.Type().Underlying().(*types.Chan).Elem())
			}
			r = append(r, v)
		}
	}
	return r
}
