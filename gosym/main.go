package main

// gosym: bounded symbolic execution of Go SSA (zoekt's real code) with an SMT
// solver deciding every symbolic branch and assertion.
//
// usage: gosym -config harness/<ID>/config.json -tier quick|thorough -out result.json

import (
	"encoding/json"
	"flag"
	"fmt"
	"go/types"
	"os"
	"path/filepath"
	"runtime"
	"sort"
	"strings"
	"time"

	"golang.org/x/tools/go/packages"
	"golang.org/x/tools/go/ssa"
	"golang.org/x/tools/go/ssa/ssautil"
)

type HarnessCfg struct {
	Name     string         `json:"name"`
	Tier     string         `json:"tier"` // "" / "both" / "thorough" / "quick"
	Quick    *HarnessBounds `json:"quick"`
	Thorough *HarnessBounds `json:"thorough"`
	Reach    []string       `json:"expect_reach"`
	Twin     string         `json:"twin"` // reachability twin (must be violated)
	Note     string         `json:"note"`
}

type Config struct {
	Property  string            `json:"property"`
	Packages  []string          `json:"packages"`
	Overlay   map[string]string `json:"overlay"`
	Stubs     map[string]string `json:"stubs"`
	// Rewrite: repo-relative source file -> list of [old, new] textual replacements applied to the
	// file's CURRENT content (every occurrence; each pair must match at least once, otherwise the
	// harness is stale and the run is inconclusive); the key "append" adds text at the end. This is
	// how environment calls (os.Rename, os.Open ...) in the code under test are redirected to the
	// environment model, identically for the engine and for native replay.
	Rewrite map[string][][2]string `json:"rewrite"`
	Blackhole []string          `json:"blackhole"`
	Env       map[string]string `json:"env"`
	MaxProcs  int               `json:"gomaxprocs"`
	Harnesses []HarnessCfg      `json:"harnesses"`
}

type RunResult struct {
	Property string            `json:"property"`
	Tier     string            `json:"tier"`
	LoadS    float64           `json:"load_s"`
	Results  []*HarnessResult  `json:"results"`
	Solver   string            `json:"solver"`
	Errors   []string          `json:"errors"`
	SrcHash  map[string]string `json:"source_files"`
}

var defaultBlackhole = []string{
	"github.com/prometheus", "github.com/sourcegraph/log", "go.opentelemetry.io", "github.com/opentracing",
	"google.golang.org/grpc", "google.golang.org/protobuf", "runtime/pprof", "runtime/trace", "runtime/debug", "net/http", "net",
	"runtime", "internal/cpu", "internal/godebug", "internal/poll", "internal/syscall", "syscall", "internal/testlog",
	"github.com/sourcegraph/zoekt/internal/trace", "go.uber.org/zap", "go.uber.org/multierr", "go.uber.org/goleak", "github.com/uber", "golang.org/x/net", "golang.org/x/sys",
	"internal/runtime", "internal/race", "internal/msan", "internal/asan", "log/slog", "expvar", "github.com/getsentry", "github.com/shirou",
	"github.com/keegancsmith/tmpfriend", "cloud.google.com", "github.com/felixge", "github.com/rs/xid", "github.com/go-logr", "os/signal", "internal/bisect",
	"crypto", "hash/maphash", "os/exec", "os/user", "mime", "html/template", "text/template", "encoding/gob", "go.uber.org/automaxprocs",
}

func main() {
	cfgPath := flag.String("config", "", "harness config json")
	tier := flag.String("tier", "quick", "quick|thorough")
	out := flag.String("out", "", "result json path")
	workers := flag.Int("workers", runtime.NumCPU(), "parallel workers")
	solver := flag.String("solver", "z3", "z3|z3-new|cvc5")
	only := flag.String("only", "", "run only harnesses whose name contains this")
	repo := flag.String("repo", "/repo", "repository root")
	trace := flag.Bool("trace", false, "trace calls")
	flag.Parse()
	if *cfgPath == "" {
		fmt.Fprintln(os.Stderr, "need -config")
		os.Exit(2)
	}
	raw, err := os.ReadFile(*cfgPath)
	if err != nil {
		fatal(err)
	}
	var cfg Config
	if err := json.Unmarshal(raw, &cfg); err != nil {
		fatal(err)
	}
	hdir := filepath.Dir(*cfgPath)
	t0 := time.Now()

	overlay := map[string][]byte{}
	srcHash := map[string]string{}
	// verifrt runtime package (shared by all harnesses)
	rtSrc, err := os.ReadFile(filepath.Join(filepath.Dir(filepath.Dir(hdir)), "verifrt", "verifrt.go"))
	if err != nil {
		fatal(err)
	}
	overlay[filepath.Join(*repo, "zz_verifrt", "verifrt.go")] = rtSrc
	if extra, err := filepath.Glob(filepath.Join(filepath.Dir(filepath.Dir(hdir)), "verifrt", "*.go")); err == nil {
		for _, f := range extra {
			if strings.HasSuffix(f, "_native.go") || strings.HasSuffix(f, "verifrt.go") {
				continue
			}
			b, _ := os.ReadFile(f)
			overlay[filepath.Join(*repo, "zz_verifrt", filepath.Base(f))] = b
		}
	}
	for dst, src := range cfg.Overlay {
		b, err := os.ReadFile(filepath.Join(hdir, src))
		if err != nil {
			fatal(err)
		}
		overlay[filepath.Join(*repo, dst)] = b
	}
	for rel, pairs := range cfg.Rewrite {
		b, err := os.ReadFile(filepath.Join(*repo, rel))
		if err != nil {
			fatal(err)
		}
		txt := string(b)
		for _, pr := range pairs {
			if pr[0] == "append" {
				txt += "\n" + pr[1] + "\n"
				continue
			}
			if !strings.Contains(txt, pr[0]) {
				res := &RunResult{Property: cfg.Property, Tier: *tier, Errors: []string{fmt.Sprintf("rewrite of %s: pattern %q no longer occurs in the source (harness is stale)", rel, pr[0])}}
				writeResult(*out, res)
				os.Exit(2)
			}
			txt = strings.ReplaceAll(txt, pr[0], pr[1])
		}
		overlay[filepath.Join(*repo, rel)] = []byte(txt)
	}
	pcfg := &packages.Config{
		Mode:       packages.LoadAllSyntax,
		Dir:        *repo,
		BuildFlags: []string{"-tags=verif,appengine,purego"},
		Overlay:    overlay,
		Env:        childEnv(),
	}
	pats := append([]string{"./zz_verifrt"}, cfg.Packages...)
	pkgs, err := packages.Load(pcfg, pats...)
	if err != nil {
		fatal(err)
	}
	res := &RunResult{Property: cfg.Property, Tier: *tier, Solver: *solver, SrcHash: srcHash}
	nerr := 0
	packages.Visit(pkgs, nil, func(p *packages.Package) {
		for _, e := range p.Errors {
			nerr++
			if len(res.Errors) < 20 {
				res.Errors = append(res.Errors, e.Error())
			}
		}
	})
	if nerr > 0 {
		// harness no longer type-checks against the tree: inconclusive
		res.LoadS = time.Since(t0).Seconds()
		writeResult(*out, res)
		fmt.Fprintf(os.Stderr, "load errors: %d\n%s\n", nerr, strings.Join(res.Errors, "\n"))
		os.Exit(2)
	}
	prog, _ := ssautil.AllPackages(pkgs, ssa.InstantiateGenerics)
	if cfg.Stubs == nil {
		cfg.Stubs = map[string]string{}
	}
	for k, v := range map[string]string{"crypto/sha1.New": rtPath + ".NewSHA1H", "crypto/sha1.Sum": rtPath + ".SHA1Sum"} {
		if _, ok := cfg.Stubs[k]; !ok {
			cfg.Stubs[k] = v
		}
	}
	eng := &Engine{prog: prog, pkgs: pkgs, ssaPkgs: map[string]*ssa.Package{}, stubMap: cfg.Stubs,
		blackhole: append(append([]string{}, defaultBlackhole...), cfg.Blackhole...), trace: *trace, env: cfg.Env, maxprocs: cfg.MaxProcs, tier: *tier}
	if eng.maxprocs == 0 {
		eng.maxprocs = 1
	}
	for _, p := range prog.AllPackages() {
		eng.ssaPkgs[p.Pkg.Path()] = p
	}
	if rtp := eng.ssaPkgs[rtPath]; rtp != nil {
		rtp.Build()
		eng.rtPkg = rtp
		if tn := rtp.Type("RuntimeError"); tn != nil {
			eng.runtimeErrT = types.NewPointer(tn.Type())
		}
		if tn := rtp.Type("FmtError"); tn != nil {
			eng.fmtErrT = types.NewPointer(tn.Type())
		}
	}
	res.LoadS = time.Since(t0).Seconds()
	fmt.Fprintf(os.Stderr, "loaded %d packages in %.1fs\n", len(prog.AllPackages()), res.LoadS)

	for _, h := range cfg.Harnesses {
		if *only != "" && !strings.Contains(h.Name, *only) {
			continue
		}
		if h.Tier == "thorough" && *tier != "thorough" {
			continue
		}
		if h.Tier == "quick" && *tier != "quick" {
			continue
		}
		b := defaultBounds(*tier)
		var ob *HarnessBounds
		if *tier == "thorough" && h.Thorough != nil {
			ob = h.Thorough
		} else if h.Quick != nil {
			ob = h.Quick
		}
		if ob != nil {
			mergeBounds(&b, ob)
		}
		fmt.Fprintf(os.Stderr, "== %s\n", h.Name)
		r := eng.Explore(h.Name, b, *workers, *solver)
		res.Results = append(res.Results, r)
		keys := make([]string, 0, len(r.Outcomes))
		for k := range r.Outcomes {
			keys = append(keys, fmt.Sprintf("%s=%d", k, r.Outcomes[k]))
		}
		sort.Strings(keys)
		fmt.Fprintf(os.Stderr, "   paths=%d %s asserts=%d/%d queries=%d solver=%.1fs wall=%.1fs steps=%d viol=%d\n",
			r.Paths, strings.Join(keys, " "), r.AssertsOK, r.AssertsTotal, r.Queries, r.SolverS, r.WallS, r.Steps, len(r.Violations))
		for d, n := range r.Details {
			fmt.Fprintf(os.Stderr, "   ! %d x %s\n", n, d)
		}
		for i, v := range r.Violations {
			if i >= 3 {
				break
			}
			fmt.Fprintf(os.Stderr, "   VIOL %s [%s] %s vector=%v @ %s\n", v.Kind, v.Label, v.Msg, v.Vector, v.Where)
		}
		if h.Twin != "" {
			tr := eng.Explore(h.Twin, b, *workers, *solver, true)
			tr.Harness = h.Twin + " (twin)"
			res.Results = append(res.Results, tr)
		}
	}
	writeResult(*out, res)
}

func defaultBounds(tier string) HarnessBounds {
	b := HarnessBounds{MaxUnwind: 24, MaxPaths: 20000, MaxSteps: 5_000_000, MaxConcretize: 64, TimeoutMs: 10000, ConfVectors: 12}
	if tier == "thorough" {
		b.MaxPaths = 400000
		b.TimeoutMs = 60000
		b.MaxSteps = 50_000_000
		b.ConfVectors = 40
	}
	return b
}

func mergeBounds(b *HarnessBounds, o *HarnessBounds) {
	if o.MaxUnwind > 0 {
		b.MaxUnwind = o.MaxUnwind
	}
	if o.MaxPaths > 0 {
		b.MaxPaths = o.MaxPaths
	}
	if o.MaxSteps > 0 {
		b.MaxSteps = o.MaxSteps
	}
	if o.MaxConcretize > 0 {
		b.MaxConcretize = o.MaxConcretize
	}
	if o.TimeoutMs > 0 {
		b.TimeoutMs = o.TimeoutMs
	}
	if o.ConfVectors > 0 {
		b.ConfVectors = o.ConfVectors
	}
}

func writeResult(path string, r *RunResult) {
	b, _ := json.MarshalIndent(r, "", " ")
	if path == "" {
		return
	}
	if err := os.WriteFile(path, b, 0o644); err != nil {
		fatal(err)
	}
}

func fatal(err error) {
	fmt.Fprintln(os.Stderr, "gosym:", err)
	os.Exit(2)
}

// childEnv: environment for the `go list` child. The repo needs the Go toolchain its
// go.mod names; the default go auto-switches to the cached one offline, which
// GOTOOLCHAIN=local or GOSUMDB=off would prevent.
func childEnv() []string {
	var env []string
	for _, kv := range os.Environ() {
		if strings.HasPrefix(kv, "GOSUMDB=") || strings.HasPrefix(kv, "GOTOOLCHAIN=") || strings.HasPrefix(kv, "GOFLAGS=") || strings.HasPrefix(kv, "GOPROXY=") {
			continue
		}
		env = append(env, kv)
	}
	return append(env, "GOFLAGS=-mod=mod", "GOPROXY=off")
}
