package main

// SSA interpreter over the hybrid value model.

import (
	"fmt"
	"go/constant"
	"go/token"
	"go/types"
	"math"
	"strings"
	"sync"

	"golang.org/x/tools/go/packages"
	"golang.org/x/tools/go/ssa"
)

type Engine struct {
	prog        *ssa.Program
	pkgs        []*packages.Package
	ssaPkgs     map[string]*ssa.Package
	mu          sync.Mutex
	fnInfos     sync.Map          // *ssa.Function -> *fnInfo
	rtPkg       *ssa.Package      // verifrt
	stubMap     map[string]string // qualified function -> replacement (verifrt function name or qualified)
	blackhole   []string
	constCache  sync.Map // *ssa.Const -> Value
	runtimeErrT types.Type
	trace       bool
	sharedInit  sync.Map // pkg path -> *sharedGlobals
	sharedLocks sync.Map
	fmtErrT     types.Type
	env         map[string]string
	maxprocs    int
	tier        string
}

type fnInfo struct {
	slots map[ssa.Value]int
	n     int
	intr  intrinsic // non-nil if intrinsic
	name  string
	stub  *ssa.Function
	black bool
}

type frame struct {
	x              *Exec
	caller         *frame
	fn             *ssa.Function
	info           *fnInfo
	block          *ssa.BasicBlock
	prevBlock      *ssa.BasicBlock
	env            []Value
	locals         []Value
	defers         *deferred
	result         Value
	panicking      bool
	panicVal       interface{}
	curInstr       ssa.Instruction
	visits         map[*ssa.BasicBlock]int
	deferStackCell *deferred
}

type targetPanic struct{ v Value } // a Go-level panic in interpreted code (v is an Iface)

func (e *Engine) info(fn *ssa.Function) *fnInfo {
	if v, ok := e.fnInfos.Load(fn); ok {
		return v.(*fnInfo)
	}
	// Build() is a sync.Once per package: calling it unconditionally makes a worker wait for
	// a build another worker started. Testing fn.Blocks first is a race: a body that is still
	// being built (blocks present, allocs not yet lifted to phis) would get an incomplete slot map.
	if fn.Pkg != nil {
		fn.Pkg.Build()
	}
	if fn.Origin() != nil && fn.Origin().Pkg != nil {
		fn.Origin().Pkg.Build()
	}
	fi := &fnInfo{slots: map[ssa.Value]int{}, name: fn.String()}
	if fn.Origin() != nil {
		// generic instance: intrinsics keyed by origin name too
		fi.name = fn.Origin().String()
	}
	n := 0
	for _, p := range fn.Params {
		fi.slots[p] = n
		n++
	}
	for _, p := range fn.FreeVars {
		fi.slots[p] = n
		n++
	}
	for _, b := range fn.Blocks {
		for _, in := range b.Instrs {
			if v, ok := in.(ssa.Value); ok {
				fi.slots[v] = n
				n++
			}
		}
	}
	fi.n = n
	e.resolveSpecial(fn, fi)
	act, _ := e.fnInfos.LoadOrStore(fn, fi)
	return act.(*fnInfo)
}

func (e *Engine) resolveSpecial(fn *ssa.Function, fi *fnInfo) {
	name := fn.String()
	if fn.Origin() != nil {
		name = fn.Origin().String()
	}
	if rep, ok := e.stubMap[name]; ok {
		if f := e.lookupFuncByName(rep); f != nil {
			fi.stub = f
			return
		}
		panic("stub target not found: " + rep + " for " + name)
	}
	if in, ok := intrinsics[name]; ok {
		fi.intr = in
		return
	}
	pkgPath := ""
	if fn.Pkg != nil {
		pkgPath = fn.Pkg.Pkg.Path()
	} else if fn.Origin() != nil && fn.Origin().Pkg != nil {
		pkgPath = fn.Origin().Pkg.Pkg.Path()
	} else if fn.Signature.Recv() != nil {
		// synthetic wrapper: use receiver's package
		if p := recvPkg(fn.Signature.Recv().Type()); p != nil {
			pkgPath = p.Path()
		}
	}
	if e.isBlackhole(pkgPath) {
		fi.black = true
	}
}

func recvPkg(t types.Type) *types.Package {
	for {
		switch tt := t.(type) {
		case *types.Pointer:
			t = tt.Elem()
			continue
		case *types.Named:
			return tt.Obj().Pkg()
		case *types.Alias:
			t = types.Unalias(tt)
			continue
		}
		return nil
	}
}

func (e *Engine) isBlackhole(path string) bool {
	if path == "" || path == "net/url" {
		return false
	}
	for _, b := range e.blackhole {
		if path == b || strings.HasPrefix(path, b+"/") || (strings.HasSuffix(b, "*") && strings.HasPrefix(path, b[:len(b)-1])) {
			return true
		}
	}
	return false
}

func (e *Engine) lookupHarness(name string) *ssa.Function {
	return e.lookupFuncByName(name)
}

// lookupFuncByName: "pkgpath.Func" or "(pkgpath.T).Method" / "(*pkgpath.T).Method"
func (e *Engine) lookupFuncByName(q string) *ssa.Function {
	if strings.HasPrefix(q, "(") {
		// method
		i := strings.Index(q, ").")
		if i < 0 {
			return nil
		}
		recv := q[1:i]
		meth := q[i+2:]
		ptr := strings.HasPrefix(recv, "*")
		recv = strings.TrimPrefix(recv, "*")
		j := strings.LastIndex(recv, ".")
		if j < 0 {
			return nil
		}
		pkg := e.ssaPkgs[recv[:j]]
		if pkg == nil {
			return nil
		}
		tn := pkg.Type(recv[j+1:])
		if tn == nil {
			return nil
		}
		var T types.Type = tn.Type()
		if ptr {
			T = types.NewPointer(T)
		}
		return e.prog.LookupMethod(T, pkg.Pkg, meth)
	}
	j := strings.LastIndex(q, ".")
	if j < 0 {
		return nil
	}
	pkg := e.ssaPkgs[q[:j]]
	if pkg == nil {
		return nil
	}
	pkg.Build()
	return pkg.Func(q[j+1:])
}

// ---- frame ops

func (fr *frame) get(v ssa.Value) Value {
	switch v := v.(type) {
	case *ssa.Const:
		return fr.x.constVal(v)
	case *ssa.Global:
		return fr.x.globalAddr(v)
	case *ssa.Function:
		return v
	case *ssa.Builtin:
		return v
	case nil:
		return nil
	}
	if i, ok := fr.info.slots[v]; ok {
		return fr.env[i]
	}
	panic(fmt.Sprintf("get: no slot for %T %v in %s", v, v.Name(), fr.fn))
}

func (fr *frame) set(v ssa.Value, val Value) {
	fr.env[fr.info.slots[v]] = val
}

func (x *Exec) constVal(c *ssa.Const) Value {
	if v, ok := x.eng.constCache.Load(c); ok {
		return v
	}
	v := constValue(c)
	x.eng.constCache.Store(c, v)
	return v
}

func constValue(c *ssa.Const) Value {
	t := c.Type()
	if c.Value == nil {
		if _, ok := t.(*types.TypeParam); ok {
			panic(unsupported{"const of type param"})
		}
		return zero(t)
	}
	ut := t.Underlying()
	if b, ok := ut.(*types.Basic); ok {
		switch {
		case b.Info()&types.IsBoolean != 0:
			return mkBool(constant.BoolVal(c.Value))
		case b.Info()&types.IsInteger != 0:
			w, signed, _ := intInfo(b)
			if signed {
				return mkConst(w, uint64(c.Int64()))
			}
			return mkConst(w, c.Uint64())
		case b.Info()&types.IsFloat != 0:
			return roundFloat(b, c.Float64())
		case b.Info()&types.IsComplex != 0:
			return c.Complex128()
		case b.Info()&types.IsString != 0:
			if c.Value.Kind() == constant.String {
				return Str{S: constant.StringVal(c.Value)}
			}
			return Str{S: string(rune(c.Int64()))}
		}
	}
	panic(fmt.Sprintf("constValue: %v of type %v", c.Value, t))
}

func (x *Exec) globalAddr(g *ssa.Global) *Value {
	pkg := g.Pkg
	if p, ok := x.globals[g]; ok {
		return p
	}
	if sg := x.eng.sharedFor(x, pkg); sg != nil {
		p := sg.cells[g]
		x.globals[g] = p
		return p
	}
	x.ensureInit(pkg)
	if p, ok := x.globals[g]; ok {
		return p
	}
	p := new(Value)
	*p = zero(deref(g.Type()))
	x.globals[g] = p
	return p
}

func deref(t types.Type) types.Type {
	if p, ok := t.Underlying().(*types.Pointer); ok {
		return p.Elem()
	}
	panic("deref of non-pointer " + t.String())
}

// shared, read-only initialised packages (pure data tables)
type sharedGlobals struct {
	cells map[*ssa.Global]*Value
}

var sharedPkgs = map[string]bool{
	"unicode": true, "unicode/utf8": true, "unicode/utf16": true, "math/bits": true, "strconv": true,
	"math": true, "errors": true, "io": true, "sort": true, "slices": true, "bytes": true, "strings": true,
	"encoding/binary": true, "container/heap": true, "cmp": true, "regexp/syntax": true,
	"github.com/grafana/regexp/syntax": true, "path": true, "path/filepath": true, "hash/crc64": true,
	"io/fs": true, "time": false,
}

func (e *Engine) sharedFor(x *Exec, pkg *ssa.Package) *sharedGlobals {
	path := pkg.Pkg.Path()
	if !sharedPkgs[path] {
		return nil
	}
	if v, ok := e.sharedInit.Load(path); ok {
		return v.(*sharedGlobals)
	}
	lk, _ := e.sharedLocks.LoadOrStore(path, &sync.Mutex{})
	lk.(*sync.Mutex).Lock()
	defer lk.(*sync.Mutex).Unlock()
	if v, ok := e.sharedInit.Load(path); ok {
		return v.(*sharedGlobals)
	}
	// run init in a private concrete executor
	pkg.Build()
	ix := &Exec{ex: x.ex, eng: e, cx: newTermCtx(), facts: map[*Term]bool{}, reach: map[string]bool{},
		pkgInit: map[string]bool{}, globals: map[interface{}]*Value{}, funcsSeen: map[string]bool{}, intrSeen: map[string]bool{}, stubSeen: map[string]bool{}}
	ix.sharedBuild = path
	sg := &sharedGlobals{cells: map[*ssa.Global]*Value{}}
	for _, m := range pkg.Members {
		if g, ok := m.(*ssa.Global); ok {
			p := new(Value)
			*p = zero(deref(g.Type()))
			sg.cells[g] = p
			ix.globals[g] = p
		}
	}
	ix.pkgInit[path] = true
	func() {
		defer func() {
			if r := recover(); r != nil {
				fmt.Printf("WARNING: shared init of %s incomplete: %v\n", path, r)
			}
		}()
		if init := pkg.Func("init"); init != nil && !e.isBlackhole(path) {
			ix.inInit = map[*ssa.Package]bool{pkg: true}
			ix.callFunction(nil, init, nil, nil)
		}
	}()
	e.sharedInit.Store(path, sg)
	return sg
}

// ensureInit lazily runs the package initialiser on this path.
func (x *Exec) ensureInit(pkg *ssa.Package) {
	path := pkg.Pkg.Path()
	if x.pkgInit[path] {
		return
	}
	x.pkgInit[path] = true
	if sharedPkgs[path] && x.sharedBuild != path {
		x.eng.sharedFor(x, pkg)
		return
	}
	pkg.Build()
	for _, m := range pkg.Members {
		if g, ok := m.(*ssa.Global); ok {
			if _, have := x.globals[g]; !have {
				p := new(Value)
				*p = zero(deref(g.Type()))
				x.globals[g] = p
			}
		}
	}
	if x.eng.isBlackhole(path) {
		return
	}
	if init := pkg.Func("init"); init != nil {
		saved := x.curFrame
		if x.inInit == nil {
			x.inInit = map[*ssa.Package]bool{}
		}
		x.inInit[pkg] = true
		x.callFunction(nil, init, nil, nil)
		x.curFrame = saved
	}
}

// ---- calling

func (x *Exec) call(caller *frame, fn Value, args []Value) Value {
	switch fn := fn.(type) {
	case *ssa.Function:
		if fn == nil {
			x.goPanicRuntime("invalid memory address or nil pointer dereference (call of nil func)")
		}
		return x.callFunction(caller, fn, args, nil)
	case *Closure:
		return x.callFunction(caller, fn.Fn, args, fn.Env)
	case *ssa.Builtin:
		return x.callBuiltin(caller, fn, args)
	case *NativeFunc:
		return fn.f(x, args)
	case *rtypeMethod:
		return x.callRTypeMethod(fn, args)
	}
	panic(fmt.Sprintf("cannot call %T", fn))
}

func (x *Exec) callFunction(caller *frame, fn *ssa.Function, args []Value, env []Value) Value {
	if fn.Synthetic == "package initializer" && fn.Pkg != nil && !x.inInit[fn.Pkg] {
		// dependency initialisation is lazy: a package is initialised when one of its
		// functions or globals is first touched on this path.
		return nil
	}
	fi := x.eng.info(fn)
	if fi.stub != nil {
		x.stubSeen[fi.name+" -> "+fi.stub.String()] = true
		return x.callFunction(caller, fi.stub, args, nil)
	}
	if fi.intr != nil {
		x.intrSeen[fi.name] = true
		fr := &frame{x: x, caller: caller, fn: fn, info: fi}
		saved := x.curFrame
		x.curFrame = fr
		r := fi.intr(x, fr, args)
		x.curFrame = saved
		return r
	}
	if fi.black {
		x.stubSeen["blackhole:"+fi.name] = true
		return blackholeResults(fn.Signature, args)
	}
	return x.callBody(caller, fn, args, env...)
}

// callBody interprets fn's SSA body (no stub / intrinsic / blackhole dispatch).
func (x *Exec) callBody(caller *frame, fn *ssa.Function, args []Value, envs ...Value) Value {
	fi := x.eng.info(fn)
	env := envs
	if fn.Blocks == nil {
		// package init of a package without ssa? or external
		if fn.Name() == "init" && fn.Pkg != nil {
			return nil
		}
		panic(unsupported{"no body for function " + fn.String()})
	}
	if fn.Pkg != nil && fn.Synthetic == "" || fn.Name() == "init" {
		if fn.Pkg != nil && !x.pkgInit[fn.Pkg.Pkg.Path()] && !sharedPkgs[fn.Pkg.Pkg.Path()] && fn.Name() != "init" {
			x.ensureInit(fn.Pkg)
		}
	}
	if fn.Synthetic == "" {
		x.funcsSeen[fi.name] = true
	}
	fr := &frame{x: x, caller: caller, fn: fn, info: fi}
	fr.env = make([]Value, fi.n)
	fr.block = fn.Blocks[0]
	if len(fn.Locals) > 0 {
		fr.locals = make([]Value, len(fn.Locals))
		for i, l := range fn.Locals {
			fr.locals[i] = zero(deref(l.Type()))
			fr.env[fi.slots[l]] = &fr.locals[i]
		}
	}
	if len(args) != len(fn.Params) {
		panic(fmt.Sprintf("arg count mismatch calling %s: %d vs %d", fn, len(args), len(fn.Params)))
	}
	for i, p := range fn.Params {
		fr.env[fi.slots[p]] = args[i]
	}
	for i, fv := range fn.FreeVars {
		fr.env[fi.slots[fv]] = env[i]
	}
	saved := x.curFrame
	x.curFrame = fr
	for fr.block != nil {
		x.runFrame(fr)
	}
	x.curFrame = saved
	return fr.result
}

func zeroResults(sig *types.Signature) Value {
	res := sig.Results()
	switch res.Len() {
	case 0:
		return nil
	case 1:
		return zero(res.At(0).Type())
	}
	t := make(Tuple, res.Len())
	for i := range t {
		t[i] = zero(res.At(i).Type())
	}
	return t
}

func (x *Exec) runFrame(fr *frame) {
	defer func() {
		if fr.block == nil {
			return // normal return
		}
		r := recover()
		tp, ok := r.(targetPanic)
		if !ok {
			panic(r) // engine control flow: not recoverable by the target
		}
		fr.panicking = true
		fr.panicVal = tp
		x.curFrame = fr
		fr.runDefers()
		fr.block = fr.fn.Recover
		if fr.block == nil {
			// no recover block: function returns zero results
			fr.result = zeroResults(fr.fn.Signature)
		}
	}()
	for {
		b := fr.block
		for _, instr := range b.Instrs {
			if _, isPhi := instr.(*ssa.Phi); isPhi {
				continue
			}
			fr.curInstr = instr
			x.steps++
			if x.steps > x.ex.bounds.MaxSteps {
				x.abort(Depth, fmt.Sprintf("more than %d steps", x.ex.bounds.MaxSteps))
			}
			if x.stepBudget > 0 && x.steps-x.stepBudgetStart > x.stepBudget {
				x.stepBudget = 0
				x.recordViolation("assert", "loop-budget", fmt.Sprintf("code under test ran more than %d steps after LoopBudget (does not terminate within the declared budget)%s", x.steps-x.stepBudgetStart, x.whereStr()))
				x.abort(OK, "")
			}
			switch x.visitInstr(fr, instr) {
			case kReturn:
				return
			case kJump:
				goto next
			}
		}
		panic("block fell through: " + fr.fn.String())
	next:
		// phis
		nb := fr.block
		if len(nb.Instrs) > 0 {
			if _, ok := nb.Instrs[0].(*ssa.Phi); ok {
				idx := -1
				for i, p := range nb.Preds {
					if p == fr.prevBlock {
						idx = i
						break
					}
				}
				var tmp [8]Value
				vals := tmp[:0]
				for _, in := range nb.Instrs {
					phi, ok := in.(*ssa.Phi)
					if !ok {
						break
					}
					vals = append(vals, fr.get(phi.Edges[idx]))
				}
				for i, v := range vals {
					fr.set(nb.Instrs[i].(*ssa.Phi), v)
				}
			}
		}
	}
}

func (fr *frame) runDefers() {
	for d := fr.defers; d != nil; d = fr.defers {
		fr.defers = d.tail
		fr.runDefer(d)
	}
	if fr.panicking {
		panic(fr.panicVal)
	}
}

func (fr *frame) runDefer(d *deferred) {
	ok := false
	defer func() {
		if !ok {
			r := recover()
			tp, isT := r.(targetPanic)
			if !isT {
				panic(r)
			}
			// deferred call started a new panic
			fr.panicking = true
			fr.panicVal = tp
		}
	}()
	fr.x.call(fr, d.fn, d.args)
	ok = true
}

type continuation int

const (
	kNext continuation = iota
	kReturn
	kJump
)

func (x *Exec) goPanic(v Value) {
	x.lastPanicWhere = x.whereStr()
	panic(targetPanic{v})
}

// goPanicRuntime raises a runtime error panic in the target.
func (x *Exec) goPanicRuntime(msg string) {
	x.lastPanicWhere = x.whereStr()
	panic(targetPanic{x.eng.makeRuntimeError("runtime error: " + msg)})
}

func (e *Engine) makeRuntimeError(msg string) Value {
	if e.runtimeErrT != nil {
		cell := new(Value)
		*cell = Struct{Str{S: msg}}
		return Iface{T: e.runtimeErrT, V: cell}
	}
	return Iface{T: types.Typ[types.String], V: Str{S: msg}}
}

func (x *Exec) panicString(v Value) string {
	if i, ok := v.(Iface); ok {
		if i.T == nil {
			return "panic(nil)"
		}
		if s, ok := i.V.(Str); ok {
			if s.B == nil {
				return s.S
			}
			return "<symbolic string>"
		}
		if p, ok := i.V.(*Value); ok && p != nil {
			if st, ok := (*p).(Struct); ok && len(st) > 0 {
				if s, ok := st[0].(Str); ok && s.B == nil {
					return s.S
				}
			}
		}
		// try Error() method
		func() {
			defer func() { recover() }()
			if m := x.eng.lookupMethodSafe(i.T, "Error"); m != nil {
				r := x.callFunction(nil, m, []Value{i.V}, nil)
				if s, ok := r.(Str); ok && s.B == nil {
					v = Iface{T: types.Typ[types.String], V: s}
				}
			}
		}()
		if i2, ok := v.(Iface); ok {
			if s, ok := i2.V.(Str); ok && s.B == nil && i2.T == types.Typ[types.String] {
				return s.S
			}
		}
		return "panic of type " + i.T.String() + ": " + valString(i.V)
	}
	return valString(v)
}

func (x *Exec) visitInstr(fr *frame, instr ssa.Instruction) continuation {
	switch instr := instr.(type) {
	case *ssa.DebugRef:
	case *ssa.UnOp:
		fr.set(instr, x.unop(fr, instr, fr.get(instr.X)))
	case *ssa.BinOp:
		fr.set(instr, x.binop(instr.Op, instr.X.Type(), fr.get(instr.X), fr.get(instr.Y)))
	case *ssa.Call:
		fn, args := x.prepareCall(fr, &instr.Call)
		if fr.fn.Synthetic == "package initializer" {
			fr.set(instr, x.protectedInitCall(fr, instr, fn, args))
		} else {
			fr.set(instr, x.call(fr, fn, args))
		}
	case *ssa.ChangeInterface:
		fr.set(instr, fr.get(instr.X))
	case *ssa.ChangeType:
		fr.set(instr, fr.get(instr.X))
	case *ssa.Convert:
		fr.set(instr, x.conv(instr.Type(), instr.X.Type(), fr.get(instr.X)))
	case *ssa.MultiConvert:
		fr.set(instr, x.conv(instr.Type(), instr.X.Type(), fr.get(instr.X)))
	case *ssa.SliceToArrayPointer:
		s := fr.get(instr.X).(Slice)
		n := instr.Type().Underlying().(*types.Pointer).Elem().Underlying().(*types.Array).Len()
		if int64(len(s.A)) < n {
			x.goPanicRuntime("cannot convert slice with length to array or pointer to array with length")
		}
		if !s.NotNil && n == 0 {
			fr.set(instr, (*Value)(nil))
		} else {
			cell := new(Value)
			*cell = Array(s.A[:n:n])
			fr.set(instr, cell)
		}
	case *ssa.MakeInterface:
		fr.set(instr, Iface{T: instr.X.Type(), V: fr.get(instr.X)})
	case *ssa.Extract:
		fr.set(instr, fr.get(instr.Tuple).(Tuple)[instr.Index])
	case *ssa.Slice:
		fr.set(instr, x.sliceOp(fr, instr))
	case *ssa.Return:
		switch len(instr.Results) {
		case 0:
		case 1:
			fr.result = fr.get(instr.Results[0])
		default:
			res := make(Tuple, len(instr.Results))
			for i, r := range instr.Results {
				res[i] = fr.get(r)
			}
			fr.result = res
		}
		fr.block = nil
		return kReturn
	case *ssa.RunDefers:
		fr.runDefers()
	case *ssa.Panic:
		x.goPanic(fr.get(instr.X))
	case *ssa.Send:
		x.chanSend(fr, fr.get(instr.Chan).(*Chan), fr.get(instr.X))
	case *ssa.Store:
		x.storeTo(deref(instr.Addr.Type()), fr.get(instr.Addr), fr.get(instr.Val))
	case *ssa.If:
		c := fr.get(instr.Cond).(*Term)
		var taken bool
		if c.IsConst() {
			taken = c.C != 0
		} else {
			taken = x.decideAt(fr, instr, c)
		}
		succ := 1
		if taken {
			succ = 0
		}
		fr.prevBlock, fr.block = fr.block, fr.block.Succs[succ]
		return kJump
	case *ssa.Jump:
		fr.prevBlock, fr.block = fr.block, fr.block.Succs[0]
		return kJump
	case *ssa.Defer:
		fn, args := x.prepareCall(fr, &instr.Call)
		if instr.DeferStack != nil {
			panic(unsupported{"defer with explicit DeferStack (range-over-func)"})
		}
		fr.defers = &deferred{fn: fn, args: args, instr: instr, tail: fr.defers}
	case *ssa.Go:
		fn, args := x.prepareCall(fr, &instr.Call)
		x.spawn(fr, fn, args)
	case *ssa.MakeChan:
		sz := x.concreteInt(fr.get(instr.Size), "chan size")
		x.chanID++
		fr.set(instr, &Chan{cap: int(sz), elem: instr.Type().Underlying().(*types.Chan).Elem(), id: x.chanID})
	case *ssa.Alloc:
		var addr *Value
		if instr.Heap {
			addr = new(Value)
			fr.set(instr, addr)
		} else {
			addr = fr.get(instr).(*Value)
		}
		*addr = zero(deref(instr.Type()))
	case *ssa.MakeSlice:
		fr.set(instr, x.makeSlice(fr, instr))
	case *ssa.MakeMap:
		if instr.Reserve != nil {
			r := fr.get(instr.Reserve).(*Term)
			x.checkAllocSize(r, "make(map) hint", true)
		}
		fr.set(instr, newMap(instr.Type().Underlying().(*types.Map).Key()))
	case *ssa.Range:
		fr.set(instr, x.rangeIter(fr.get(instr.X)))
	case *ssa.Next:
		fr.set(instr, x.iterNext(fr, instr, fr.get(instr.Iter)))
	case *ssa.FieldAddr:
		fr.set(instr, x.fieldAddr(fr.get(instr.X), instr.Field))
	case *ssa.Field:
		fr.set(instr, fr.get(instr.X).(Struct)[instr.Field])
	case *ssa.IndexAddr:
		fr.set(instr, x.indexAddr(fr, instr))
	case *ssa.Index:
		fr.set(instr, x.indexOp(fr, instr))
	case *ssa.Lookup:
		fr.set(instr, x.lookup(instr, fr.get(instr.X), fr.get(instr.Index)))
	case *ssa.MapUpdate:
		m := fr.get(instr.Map).(*Map)
		if m == nil {
			x.goPanicRuntime("assignment to entry in nil map")
		}
		x.mapInsert(m, fr.get(instr.Key), copyVal(fr.get(instr.Value)))
	case *ssa.TypeAssert:
		fr.set(instr, x.typeAssert(instr, fr.get(instr.X).(Iface)))
	case *ssa.MakeClosure:
		var bindings []Value
		for _, b := range instr.Bindings {
			bindings = append(bindings, fr.get(b))
		}
		fr.set(instr, &Closure{instr.Fn.(*ssa.Function), bindings})
	case *ssa.Phi:
		panic("phi in body")
	case *ssa.Select:
		fr.set(instr, x.selectOp(fr, instr))
	default:
		panic(fmt.Sprintf("unexpected instruction: %T", instr))
	}
	return kNext
}

// decideAt: Decide with an unwinding assertion on symbolic decisions per (frame, instruction).
func (x *Exec) decideAt(fr *frame, instr *ssa.If, c *Term) bool {
	if _, known := x.facts[c]; !known {
		if fr.visits == nil {
			fr.visits = map[*ssa.BasicBlock]int{}
		}
		fr.visits[instr.Block()]++
		if x.loopBudget > 0 && fr.visits[instr.Block()] > x.loopBudget {
			x.recordViolation("assert", "loop-budget", fmt.Sprintf("a loop took more than %d symbolic iterations (declared budget)%s", x.loopBudget, x.whereStr()))
			x.abort(OK, "")
		}
		if fr.visits[instr.Block()] > x.ex.bounds.MaxUnwind {
			x.abort(Unwind, fmt.Sprintf("more than %d symbolic decisions at one branch in one activation%s", x.ex.bounds.MaxUnwind, x.whereStr()))
		}
	}
	return x.Decide(c)
}

func (x *Exec) prepareCall(fr *frame, call *ssa.CallCommon) (fn Value, args []Value) {
	v := fr.get(call.Value)
	if call.Method == nil {
		fn = v
		if f, ok := v.(*ssa.Function); ok && f == nil {
			// func-typed package variable of a blackholed package (e.g. sourcegraph/log's
			// `String = zap.String`): its init never runs, so the variable is nil; the call is a no-op.
			if u, ok := call.Value.(*ssa.UnOp); ok && u.Op == token.MUL {
				if g, ok := u.X.(*ssa.Global); ok && g.Pkg != nil && x.eng.isBlackhole(g.Pkg.Pkg.Path()) {
					if sig, ok := deref(g.Type()).Underlying().(*types.Signature); ok {
						x.stubSeen["blackhole-var:"+g.Pkg.Pkg.Path()+"."+g.Name()] = true
						fn = &NativeFunc{name: g.Name(), f: func(x *Exec, args []Value) Value { return zeroResults(sig) }}
					}
				}
			}
		}
	} else {
		recv := v.(Iface)
		if recv.T == nil {
			if p := call.Method.Pkg(); p != nil && x.eng.isBlackhole(p.Path()) {
				// nil value of an interface type that belongs to a blackholed package
				// (loggers, metrics): results of blackholed constructors are nil; calls are no-ops.
				x.stubSeen["blackhole-iface:"+call.Method.FullName()] = true
				sig := call.Method.Type().(*types.Signature)
				return &NativeFunc{name: call.Method.FullName(), f: func(x *Exec, args []Value) Value { return zeroResults(sig) }}, nil
			}
			x.goPanicRuntime("invalid memory address or nil pointer dereference (method call on nil interface)")
		}
		if rt, ok := recv.V.(RType); ok && recv.T == rtypeMarker {
			fn = &rtypeMethod{name: call.Method.Name()}
			_ = rt
		} else {
			f := x.eng.prog.LookupMethod(recv.T, call.Method.Pkg(), call.Method.Name())
			if f == nil {
				panic(fmt.Sprintf("method set for dynamic type %v does not contain %s", recv.T, call.Method))
			}
			fn = f
		}
		args = append(args, recv.V)
	}
	for _, a := range call.Args {
		args = append(args, fr.get(a))
	}
	return
}

type rtypeMethod struct{ name string }

var rtypeMarker types.Type = types.NewNamed(types.NewTypeName(token.NoPos, nil, "gosym.rtype", nil), types.NewStruct(nil, nil), nil)

// ---- memory

func (x *Exec) load(t types.Type, addr Value) Value {
	switch p := addr.(type) {
	case *Value:
		if p == nil {
			x.goPanicRuntime("invalid memory address or nil pointer dereference")
		}
		return copyVal(*p)
	case *SymPtr:
		return x.symLoad(p)
	}
	panic(fmt.Sprintf("load from %T", addr))
}

func (x *Exec) storeTo(t types.Type, addr Value, v Value) {
	switch p := addr.(type) {
	case *Value:
		if p == nil {
			x.goPanicRuntime("invalid memory address or nil pointer dereference")
		}
		storeInto(p, v)
	case *SymPtr:
		x.symStore(p, v)
	default:
		panic(fmt.Sprintf("store to %T", addr))
	}
}

// storeInto stores in place so element addresses stay valid.
func storeInto(p *Value, v Value) {
	switch v := v.(type) {
	case Struct:
		if lhs, ok := (*p).(Struct); ok && len(lhs) == len(v) {
			for i := range lhs {
				storeInto(&lhs[i], v[i])
			}
			return
		}
		*p = copyVal(v)
	case Array:
		if lhs, ok := (*p).(Array); ok && len(lhs) == len(v) {
			for i := range lhs {
				storeInto(&lhs[i], v[i])
			}
			return
		}
		*p = copyVal(v)
	default:
		*p = v
	}
}

func (x *Exec) fieldAddr(p Value, field int) Value {
	switch p := p.(type) {
	case *Value:
		if p == nil {
			x.goPanicRuntime("invalid memory address or nil pointer dereference")
		}
		return &(*p).(Struct)[field]
	case *SymPtr:
		np := *p
		np.Path = append(append([]int(nil), p.Path...), field)
		return &np
	}
	panic(fmt.Sprintf("fieldAddr on %T", p))
}

func pathGet(v Value, path []int) Value {
	for _, i := range path {
		switch vv := v.(type) {
		case Struct:
			v = vv[i]
		case Array:
			v = vv[i]
		default:
			panic("pathGet")
		}
	}
	return v
}

func pathPtr(p *Value, path []int) *Value {
	for _, i := range path {
		switch vv := (*p).(type) {
		case Struct:
			p = &vv[i]
		case Array:
			p = &vv[i]
		default:
			panic("pathPtr")
		}
	}
	return p
}

// symLoad: ite chain over candidates.
func (x *Exec) symLoad(p *SymPtr) Value {
	n := len(p.A)
	if n == 0 {
		panic("symLoad on empty")
	}
	res := copyVal(pathGet(p.A[n-1], p.Path))
	for i := n - 2; i >= 0; i-- {
		c := x.cx.Eq(p.Idx, mkConst(64, uint64(i)))
		res = x.iteVal(c, copyVal(pathGet(p.A[i], p.Path)), res)
	}
	return res
}

func (x *Exec) symStore(p *SymPtr, v Value) {
	for i := range p.A {
		c := x.cx.Eq(p.Idx, mkConst(64, uint64(i)))
		cell := pathPtr(&p.A[i], p.Path)
		storeInto(cell, x.iteVal(c, v, copyVal(*cell)))
	}
}

// iteVal merges two values of the same type under condition c.
func (x *Exec) iteVal(c *Term, a, b Value) Value {
	if c.IsConst() {
		if c.C != 0 {
			return a
		}
		return b
	}
	switch av := a.(type) {
	case *Term:
		return x.cx.Ite(c, av, b.(*Term))
	case Struct:
		bv := b.(Struct)
		r := make(Struct, len(av))
		for i := range av {
			r[i] = x.iteVal(c, av[i], bv[i])
		}
		return r
	case Array:
		bv := b.(Array)
		r := make(Array, len(av))
		for i := range av {
			r[i] = x.iteVal(c, av[i], bv[i])
		}
		return r
	case Str:
		bv := b.(Str)
		if av.Len() == bv.Len() {
			ab, bb := av.bytes(), bv.bytes()
			r := make([]*Term, len(ab))
			for i := range ab {
				r[i] = x.cx.Ite(c, ab[i], bb[i])
			}
			return normStr(r)
		}
	case float64:
		if bf, ok := b.(float64); ok && (av == bf || (av != av && bf != bf)) {
			return a
		}
	}
	if sameRef(a, b) {
		return a
	}
	// cannot merge: fork
	if x.Decide(c) {
		return a
	}
	return b
}

func sameRef(a, b Value) bool {
	switch av := a.(type) {
	case *Value:
		bv, ok := b.(*Value)
		return ok && av == bv
	case *Map:
		bv, ok := b.(*Map)
		return ok && av == bv
	case *ssa.Function:
		bv, ok := b.(*ssa.Function)
		return ok && av == bv
	case Slice:
		bv, ok := b.(Slice)
		if !ok || len(av.A) != len(bv.A) || av.NotNil != bv.NotNil {
			return false
		}
		if len(av.A) == 0 {
			return cap(av.A) == 0 && cap(bv.A) == 0
		}
		return &av.A[0] == &bv.A[0] && cap(av.A) == cap(bv.A)
	case Iface:
		bv, ok := b.(Iface)
		if !ok {
			return false
		}
		if av.T == nil || bv.T == nil {
			return av.T == nil && bv.T == nil
		}
		return types.Identical(av.T, bv.T) && sameRef(av.V, bv.V)
	case nil:
		return b == nil
	}
	return false
}

func (x *Exec) concreteInt(v Value, what string) int64 {
	t := v.(*Term)
	if t.IsConst() {
		return t.Sval()
	}
	return sext64(x.Concretize(t, what), t.W)
}

func (x *Exec) indexAddr(fr *frame, instr *ssa.IndexAddr) Value {
	xv := fr.get(instr.X)
	idx := x.toInt64Term(fr.get(instr.Index).(*Term), instr.Index.Type())
	var arr []Value
	switch xv := xv.(type) {
	case Slice:
		arr = xv.A
	case *Value:
		if xv == nil {
			x.goPanicRuntime("invalid memory address or nil pointer dereference")
		}
		if la, ok := (*xv).(*LazyArray); ok {
			i := x.concreteInt(idx, "index into huge array")
			if i < 0 || i >= la.n {
				x.goPanicRuntime(fmt.Sprintf("index out of range [%d] with length %d", i, la.n))
			}
			return la.cell(i)
		}
		arr = (*xv).(Array)
	case *SymPtr:
		// pointer to array inside symbolic element: concretise outer index
		k := x.Concretize(xv.Idx, "nested symbolic index")
		cell := pathPtr(&xv.A[k], xv.Path)
		arr = (*cell).(Array)
	default:
		panic(fmt.Sprintf("indexAddr on %T", xv))
	}
	if idx.IsConst() {
		i := idx.Sval()
		if i < 0 || i >= int64(len(arr)) {
			x.goPanicRuntime(fmt.Sprintf("index out of range [%d] with length %d", i, len(arr)))
		}
		return &arr[i]
	}
	x.boundsCheck(idx, len(arr))
	if len(arr) == 1 {
		return &arr[0]
	}
	if len(arr) > 4096 {
		k := x.Concretize(idx, "index into large array")
		return &arr[k]
	}
	return &SymPtr{A: arr, Idx: idx}
}

// boundsCheck forks a panic path if idx can be outside [0,n).
func (x *Exec) boundsCheck(idx *Term, n int) {
	inb := x.cx.Cmp("bvult", idx, mkConst(64, uint64(n)))
	if !x.Decide(inb) {
		x.goPanicRuntime(fmt.Sprintf("index out of range [symbolic] with length %d", n))
	}
}

func (x *Exec) toInt64Term(t *Term, typ types.Type) *Term {
	if t.W == 64 {
		return t
	}
	_, signed, _ := intInfo(typ)
	if signed {
		return x.cx.SExt(t, 64)
	}
	return x.cx.ZExt(t, 64)
}

func (x *Exec) indexOp(fr *frame, instr *ssa.Index) Value {
	xv := fr.get(instr.X)
	idx := x.toInt64Term(fr.get(instr.Index).(*Term), instr.Index.Type())
	switch xv := xv.(type) {
	case Array:
		if idx.IsConst() {
			i := idx.Sval()
			if i < 0 || i >= int64(len(xv)) {
				x.goPanicRuntime(fmt.Sprintf("index out of range [%d] with length %d", i, len(xv)))
			}
			return copyVal(xv[i])
		}
		x.boundsCheck(idx, len(xv))
		return x.symLoad(&SymPtr{A: xv, Idx: idx})
	case Str:
		n := xv.Len()
		if idx.IsConst() {
			i := idx.Sval()
			if i < 0 || i >= int64(n) {
				x.goPanicRuntime(fmt.Sprintf("index out of range [%d] with length %d", i, n))
			}
			return xv.byteAt(int(i))
		}
		x.boundsCheck(idx, n)
		res := xv.byteAt(n - 1)
		for i := n - 2; i >= 0; i-- {
			res = x.cx.Ite(x.cx.Eq(idx, mkConst(64, uint64(i))), xv.byteAt(i), res)
		}
		return res
	}
	panic(fmt.Sprintf("index on %T", xv))
}

func (x *Exec) sliceOp(fr *frame, instr *ssa.Slice) Value {
	xv := fr.get(instr.X)
	var lo, hi, max int64 = 0, -1, -1
	// capacity/length limit for symbolic bounds: out-of-range values take one panic path
	limit := int64(-1)
	switch xv := xv.(type) {
	case Str:
		limit = int64(xv.Len())
	case Slice:
		limit = int64(cap(xv.A))
	case *Value:
		if xv != nil {
			if a, ok := (*xv).(Array); ok {
				limit = int64(len(a))
			}
		}
	}
	getb := func(v ssa.Value, what string) int64 {
		t := x.toInt64Term(fr.get(v).(*Term), v.Type())
		if t.IsConst() {
			return t.Sval()
		}
		if limit >= 0 {
			inr := x.cx.Cmp("bvule", t, mkConst(64, uint64(limit)))
			if !x.Decide(inr) {
				x.goPanicRuntime(fmt.Sprintf("slice bounds out of range [symbolic %s] with capacity %d", what, limit))
			}
		}
		return int64(x.Concretize(t, what))
	}
	if instr.Low != nil {
		lo = getb(instr.Low, "slice low bound")
	}
	if instr.High != nil {
		hi = getb(instr.High, "slice high bound")
	}
	if instr.Max != nil {
		max = getb(instr.Max, "slice max bound")
	}
	switch xv := xv.(type) {
	case Str:
		n := int64(xv.Len())
		if hi == -1 && instr.High == nil {
			hi = n
		}
		if hi < 0 || hi > n {
			x.goPanicRuntime(fmt.Sprintf("slice bounds out of range [:%d] with length %d", hi, n))
		}
		if lo < 0 || lo > hi {
			x.goPanicRuntime(fmt.Sprintf("slice bounds out of range [%d:%d]", lo, hi))
		}
		return xv.slice(int(lo), int(hi))
	case Slice:
		return x.doSlice(xv.A, xv.NotNil, lo, hi, max, instr.High == nil, instr.Max == nil, true)
	case *Value:
		if xv == nil {
			x.goPanicRuntime("invalid memory address or nil pointer dereference")
		}
		arr := (*xv).(Array)
		return x.doSlice(arr, true, lo, hi, max, instr.High == nil, instr.Max == nil, false)
	}
	panic(fmt.Sprintf("slice of %T", xv))
}

func (x *Exec) doSlice(a []Value, notNil bool, lo, hi, max int64, noHi, noMax bool, isSlice bool) Value {
	c := int64(cap(a))
	if noHi {
		hi = int64(len(a))
	}
	if noMax {
		max = c
	}
	if max < 0 || max > c {
		x.goPanicRuntime(fmt.Sprintf("slice bounds out of range [::%d] with capacity %d", max, c))
	}
	if hi < 0 || hi > max {
		if noMax {
			x.goPanicRuntime(fmt.Sprintf("slice bounds out of range [:%d] with capacity %d", hi, c))
		}
		x.goPanicRuntime(fmt.Sprintf("slice bounds out of range [:%d:%d]", hi, max))
	}
	if lo < 0 || lo > hi {
		x.goPanicRuntime(fmt.Sprintf("slice bounds out of range [%d:%d]", lo, hi))
	}
	return Slice{A: a[lo:hi:max], NotNil: notNil || !isSlice}
}

func (x *Exec) makeSlice(fr *frame, instr *ssa.MakeSlice) Value {
	lt := x.toInt64Term(fr.get(instr.Len).(*Term), instr.Len.Type())
	ct := x.toInt64Term(fr.get(instr.Cap).(*Term), instr.Cap.Type())
	x.checkAllocSize(lt, "make len", false)
	if ct != lt {
		x.checkAllocSize(ct, "make cap", false)
	}
	n := x.concreteInt(lt, "make len")
	c := n
	if ct != lt {
		if ct.IsConst() {
			c = ct.Sval()
		} else {
			// symbolic capacity with concrete length: the capacity only affects aliasing of later
			// appends and cap(); approximate by "no spare capacity" after checking cap >= len.
			if x.Decide(x.cx.Cmp("bvslt", ct, mkConst(64, uint64(n)))) {
				x.goPanicRuntime("makeslice: cap out of range")
			}
			x.stubSeen["engine: symbolic make() capacity approximated by cap=len"] = true
		}
	}
	if n < 0 || n > c {
		x.goPanicRuntime("makeslice: len out of range")
	}
	if c > 1<<26 {
		x.goPanicRuntime(fmt.Sprintf("makeslice: cap out of range (engine limit) %d", c))
	}
	tElt := instr.Type().Underlying().(*types.Slice).Elem()
	a := make([]Value, c)
	z := zero(tElt)
	switch z.(type) {
	case Struct, Array:
		for i := range a {
			a[i] = zero(tElt)
		}
	default:
		for i := range a {
			a[i] = z
		}
	}
	return Slice{A: a[:n], NotNil: true}
}

// checkAllocSize: Go semantics (negative -> panic) plus optional allocation-bound obligation.
func (x *Exec) checkAllocSize(t *Term, what string, isMapHint bool) {
	if t.IsConst() {
		v := t.Sval()
		if x.allocBound > 0 && v > x.allocBound {
			x.recordViolation("assert", "alloc-bound", fmt.Sprintf("%s = %d exceeds allocation bound %d", what, v, x.allocBound))
			x.abort(OK, "")
		}
		return
	}
	if x.allocBound > 0 {
		// obligation: size <= bound (signed), negative handled by the panic path below
		big := x.cx.And(x.cx.Cmp("bvslt", mkConst(64, uint64(x.allocBound)), t), x.cx.Cmp("bvsle", mkConst(64, 0), t))
		if !x.replaying() {
			x.asserts++
			r := x.sol.Check(big)
			if r == Unknown {
				x.abort(Timeout, "solver unknown on alloc bound")
			}
			if r == Sat {
				// prefer a model whose size is large enough to be observable natively, small enough to run
				pref := x.cx.And(x.cx.Cmp("bvsle", mkConst(64, 1<<24), t), x.cx.Cmp("bvsle", t, mkConst(64, 1<<25)))
				if x.sol.Check(pref) == Sat {
					big = pref
				}
				x.recordViolation("assert", "alloc-bound", fmt.Sprintf("%s can exceed allocation bound %d (size read from input)", what, x.allocBound), big)
			} else {
				x.assertsOK++
			}
		}
		x.Assume(x.cx.Not(big))
	}
	if !isMapHint {
		if x.Decide(x.cx.Cmp("bvslt", t, mkConst(64, 0))) {
			x.goPanicRuntime("makeslice: len out of range")
		}
	}
}

func (x *Exec) typeAssert(instr *ssa.TypeAssert, itf Iface) Value {
	var ok bool
	var v Value
	if iface, isI := instr.AssertedType.Underlying().(*types.Interface); isI {
		v = itf
		if itf.T != nil {
			if itf.T == rtypeMarker {
				ok = true
			} else {
				ok = types.Implements(itf.T, iface) || x.implementsViaMethodSet(itf.T, iface)
			}
		}
	} else {
		if itf.T != nil && types.Identical(itf.T, instr.AssertedType) {
			v = itf.V
			ok = true
		}
	}
	if instr.CommaOk {
		if !ok {
			v = zero(instr.AssertedType)
		}
		return Tuple{v, mkBool(ok)}
	}
	if !ok {
		msg := "interface conversion: "
		if itf.T == nil {
			msg += "interface is nil, not " + instr.AssertedType.String()
		} else {
			msg += "interface is " + itf.T.String() + ", not " + instr.AssertedType.String()
		}
		x.goPanicRuntime(msg)
	}
	return v
}

func (x *Exec) implementsViaMethodSet(t types.Type, iface *types.Interface) bool {
	ms := x.eng.prog.MethodSets.MethodSet(t)
	for i := 0; i < iface.NumMethods(); i++ {
		m := iface.Method(i)
		sel := ms.Lookup(m.Pkg(), m.Name())
		if sel == nil {
			return false
		}
	}
	return true
}

var _ = math.MaxInt64

// protectedInitCall: a call made directly by a package initializer. If it cannot be
// interpreted (runtime-internal, reflection, ...), the result is the zero value and
// initialisation continues; the skipped call is listed in the evidence as a stub.
func (x *Exec) protectedInitCall(fr *frame, instr *ssa.Call, fn Value, args []Value) (res Value) {
	saved := x.curFrame
	defer func() {
		if r := recover(); r != nil {
			switch r.(type) {
			case pathAbort, threadKilled:
				panic(r)
			}
			x.curFrame = saved
			name := fmt.Sprint(instr.Call.Value)
			x.stubSeen["init-skipped:"+fr.fn.Pkg.Pkg.Path()+":"+name] = true
			res = zero(instr.Type())
		}
	}()
	return x.call(fr, fn, args)
}

// blackholeResults: zero results, except that a context.Context result is the (first)
// context.Context argument -- tracing/metrics wrappers derive a context from their parent and a
// nil context would be a spurious panic in the caller.
func blackholeResults(sig *types.Signature, args []Value) Value {
	r := zeroResults(sig)
	var ctx Value
	off := 0
	if sig.Recv() != nil {
		off = 1
	}
	for i := 0; i < sig.Params().Len() && i+off < len(args); i++ {
		if isContextType(sig.Params().At(i).Type()) {
			ctx = args[i+off]
			break
		}
	}
	if ctx == nil {
		return r
	}
	switch sig.Results().Len() {
	case 0:
	case 1:
		if isContextType(sig.Results().At(0).Type()) {
			return ctx
		}
	default:
		t := r.(Tuple)
		for i := 0; i < sig.Results().Len(); i++ {
			if isContextType(sig.Results().At(i).Type()) {
				t[i] = ctx
			}
		}
	}
	return r
}

func isContextType(t types.Type) bool {
	n, ok := t.(*types.Named)
	return ok && n.Obj().Pkg() != nil && n.Obj().Pkg().Path() == "context" && n.Obj().Name() == "Context"
}
