package main

// SMT terms: bit-vectors (W in 1..64) and Booleans (W == 0), with constant
// folding so concrete code stays concrete. Non-constant terms are hash-consed
// per TermCtx (one per explored path).

import (
	"fmt"
	"math/bits"
	"strconv"
	"strings"
	"sync/atomic"
)

type Term struct {
	Op   string
	W    int // 0 = Bool
	Args []*Term
	C    uint64 // constant value / extract hi<<8|lo / ext amount
	Name string // variable name
	id   int64
}

var termID int64

func nextID() int64 { return atomic.AddInt64(&termID, 1) }

func mask(w int) uint64 {
	if w >= 64 {
		return ^uint64(0)
	}
	return (uint64(1) << uint(w)) - 1
}

var (
	tTrue  = &Term{Op: "const", W: 0, C: 1, id: nextID()}
	tFalse = &Term{Op: "const", W: 0, C: 0, id: nextID()}
)

var smallConsts [4][256]*Term // widths 8,16,32,64

func init() {
	for wi, w := range []int{8, 16, 32, 64} {
		for v := 0; v < 256; v++ {
			smallConsts[wi][v] = &Term{Op: "const", W: w, C: uint64(v), id: nextID()}
		}
	}
}

func mkConst(w int, v uint64) *Term {
	if w == 0 {
		if v != 0 {
			return tTrue
		}
		return tFalse
	}
	v &= mask(w)
	if v < 256 {
		switch w {
		case 8:
			return smallConsts[0][v]
		case 16:
			return smallConsts[1][v]
		case 32:
			return smallConsts[2][v]
		case 64:
			return smallConsts[3][v]
		}
	}
	return &Term{Op: "const", W: w, C: v, id: nextID()}
}

func mkBool(b bool) *Term {
	if b {
		return tTrue
	}
	return tFalse
}

func (t *Term) IsConst() bool { return t.Op == "const" }
func (t *Term) IsTrue() bool  { return t.Op == "const" && t.W == 0 && t.C != 0 }
func (t *Term) IsFalse() bool { return t.Op == "const" && t.W == 0 && t.C == 0 }

// signed value of a constant
func (t *Term) Sval() int64 { return sext64(t.C, t.W) }

func sext64(v uint64, w int) int64 {
	if w >= 64 {
		return int64(v)
	}
	sh := uint(64 - w)
	return int64(v<<sh) >> sh
}

type termKey struct {
	op         string
	w          int
	c          uint64
	a0, a1, a2 int64
	name       string
}

type TermCtx struct {
	tab   map[termKey]*Term
	nvars int
	vars  []*Term
}

func newTermCtx() *TermCtx { return &TermCtx{tab: map[termKey]*Term{}} }

func (cx *TermCtx) intern(op string, w int, c uint64, args ...*Term) *Term {
	k := termKey{op: op, w: w, c: c}
	switch len(args) {
	case 3:
		k.a2 = args[2].id
		fallthrough
	case 2:
		k.a1 = args[1].id
		fallthrough
	case 1:
		k.a0 = args[0].id
	}
	// constants are not hash-consed by pointer: key them by value
	for i, a := range args {
		if a.IsConst() {
			v := -int64(a.C&0x3fffffffffffffff) - 1 - int64(a.W)<<56
			switch i {
			case 0:
				k.a0 = v
			case 1:
				k.a1 = v
			case 2:
				k.a2 = v
			}
			if a.C > 0x3fffffffffffffff {
				k.name += fmt.Sprintf("%d:%x;", i, a.C)
			}
		}
	}
	if t, ok := cx.tab[k]; ok {
		return t
	}
	t := &Term{Op: op, W: w, C: c, Args: append([]*Term(nil), args...), id: nextID()}
	cx.tab[k] = t
	return t
}

func (cx *TermCtx) Var(name string, w int) *Term {
	cx.nvars++
	t := &Term{Op: "var", W: w, Name: fmt.Sprintf("%s!%d", sanitize(name), cx.nvars), id: nextID()}
	cx.vars = append(cx.vars, t)
	return t
}

func sanitize(s string) string {
	var b strings.Builder
	for _, c := range s {
		if c >= 'a' && c <= 'z' || c >= 'A' && c <= 'Z' || c >= '0' && c <= '9' || c == '_' {
			b.WriteRune(c)
		} else {
			b.WriteByte('_')
		}
	}
	if b.Len() == 0 {
		return "v"
	}
	return b.String()
}

// ---------- Boolean ops

func (cx *TermCtx) Not(a *Term) *Term {
	if a.IsConst() {
		return mkBool(a.C == 0)
	}
	if a.Op == "not" {
		return a.Args[0]
	}
	return cx.intern("not", 0, 0, a)
}

func (cx *TermCtx) And(a, b *Term) *Term {
	if a.IsConst() {
		if a.C == 0 {
			return tFalse
		}
		return b
	}
	if b.IsConst() {
		if b.C == 0 {
			return tFalse
		}
		return a
	}
	if a == b {
		return a
	}
	return cx.intern("and", 0, 0, a, b)
}

func (cx *TermCtx) Or(a, b *Term) *Term {
	if a.IsConst() {
		if a.C != 0 {
			return tTrue
		}
		return b
	}
	if b.IsConst() {
		if b.C != 0 {
			return tTrue
		}
		return a
	}
	if a == b {
		return a
	}
	return cx.intern("or", 0, 0, a, b)
}

func (cx *TermCtx) Ite(c, a, b *Term) *Term {
	if c.IsConst() {
		if c.C != 0 {
			return a
		}
		return b
	}
	if a == b {
		return a
	}
	if a.IsConst() && b.IsConst() && a.W == b.W && a.C == b.C {
		return a
	}
	if a.W == 0 {
		if a.IsTrue() && b.IsFalse() {
			return c
		}
		if a.IsFalse() && b.IsTrue() {
			return cx.Not(c)
		}
	}
	return cx.intern("ite", a.W, 0, c, a, b)
}

func (cx *TermCtx) Eq(a, b *Term) *Term {
	if a.W != b.W {
		panic(fmt.Sprintf("Eq width mismatch %d %d", a.W, b.W))
	}
	if a.IsConst() && b.IsConst() {
		return mkBool(a.C == b.C)
	}
	if a == b {
		return tTrue
	}
	if a.W == 0 {
		if a.IsConst() {
			if a.C != 0 {
				return b
			}
			return cx.Not(b)
		}
		if b.IsConst() {
			if b.C != 0 {
				return a
			}
			return cx.Not(a)
		}
	}
	if a.IsConst() { // canonical: const on the right
		a, b = b, a
	}
	// ite(c, k1, k2) == k  with constants
	if b.IsConst() && a.Op == "ite" && a.Args[1].IsConst() && a.Args[2].IsConst() {
		e1 := a.Args[1].C == b.C
		e2 := a.Args[2].C == b.C
		switch {
		case e1 && e2:
			return tTrue
		case e1:
			return a.Args[0]
		case e2:
			return cx.Not(a.Args[0])
		default:
			return tFalse
		}
	}
	// zext(x) == const
	if b.IsConst() && a.Op == "zext" {
		x := a.Args[0]
		if b.C > mask(x.W) {
			return tFalse
		}
		return cx.Eq(x, mkConst(x.W, b.C))
	}
	return cx.intern("=", 0, 0, a, b)
}

// ---------- bit-vector ops

func (cx *TermCtx) Bin(op string, a, b *Term) *Term {
	if a.W != b.W {
		panic(fmt.Sprintf("Bin %s width mismatch %d %d", op, a.W, b.W))
	}
	w := a.W
	if a.IsConst() && b.IsConst() {
		x, y := a.C, b.C
		var r uint64
		switch op {
		case "bvadd":
			r = x + y
		case "bvsub":
			r = x - y
		case "bvmul":
			r = x * y
		case "bvand":
			r = x & y
		case "bvor":
			r = x | y
		case "bvxor":
			r = x ^ y
		case "bvudiv":
			if y == 0 {
				r = mask(w)
			} else {
				r = x / y
			}
		case "bvurem":
			if y == 0 {
				r = x
			} else {
				r = x % y
			}
		case "bvsdiv":
			sx, sy := sext64(x, w), sext64(y, w)
			if sy == 0 {
				if sx < 0 {
					r = 1
				} else {
					r = mask(w)
				}
			} else if sy == -1 {
				r = uint64(-sx)
			} else {
				r = uint64(sx / sy)
			}
		case "bvsrem":
			sx, sy := sext64(x, w), sext64(y, w)
			if sy == 0 {
				r = x
			} else if sy == -1 {
				r = 0
			} else {
				r = uint64(sx % sy)
			}
		case "bvshl":
			if y >= uint64(w) {
				r = 0
			} else {
				r = x << y
			}
		case "bvlshr":
			if y >= uint64(w) {
				r = 0
			} else {
				r = x >> y
			}
		case "bvashr":
			sx := sext64(x, w)
			if y >= uint64(w) {
				if sx < 0 {
					r = mask(w)
				} else {
					r = 0
				}
			} else {
				r = uint64(sx >> y)
			}
		default:
			panic("Bin const: " + op)
		}
		return mkConst(w, r)
	}
	// algebraic identities
	switch op {
	case "bvadd":
		if a.IsConst() {
			a, b = b, a
		}
		if b.IsConst() && b.C == 0 {
			return a
		}
		// (x + c1) + c2
		if b.IsConst() && a.Op == "bvadd" && a.Args[1].IsConst() {
			return cx.Bin("bvadd", a.Args[0], mkConst(w, a.Args[1].C+b.C))
		}
	case "bvsub":
		if b.IsConst() && b.C == 0 {
			return a
		}
		if a == b {
			return mkConst(w, 0)
		}
		if b.IsConst() {
			return cx.Bin("bvadd", a, mkConst(w, -b.C))
		}
	case "bvmul":
		if a.IsConst() {
			a, b = b, a
		}
		if b.IsConst() {
			if b.C == 0 {
				return mkConst(w, 0)
			}
			if b.C == 1 {
				return a
			}
		}
	case "bvand":
		if a.IsConst() {
			a, b = b, a
		}
		if b.IsConst() {
			if b.C == 0 {
				return mkConst(w, 0)
			}
			if b.C == mask(w) {
				return a
			}
			// zext(x) & m where m covers x's bits
			if a.Op == "zext" && b.C&mask(a.Args[0].W) == mask(a.Args[0].W) {
				return a
			}
		}
		if a == b {
			return a
		}
	case "bvor", "bvxor":
		if a.IsConst() {
			a, b = b, a
		}
		if b.IsConst() && b.C == 0 {
			return a
		}
		if a == b {
			if op == "bvor" {
				return a
			}
			return mkConst(w, 0)
		}
	case "bvshl", "bvlshr", "bvashr":
		if b.IsConst() && b.C == 0 {
			return a
		}
		if b.IsConst() && b.C >= uint64(w) && op != "bvashr" {
			return mkConst(w, 0)
		}
	case "bvudiv", "bvsdiv":
		if b.IsConst() && b.C == 1 {
			return a
		}
	}
	return cx.intern(op, w, 0, a, b)
}

func (cx *TermCtx) BvNot(a *Term) *Term {
	if a.IsConst() {
		return mkConst(a.W, ^a.C)
	}
	return cx.intern("bvnot", a.W, 0, a)
}

func (cx *TermCtx) BvNeg(a *Term) *Term {
	if a.IsConst() {
		return mkConst(a.W, -a.C)
	}
	return cx.intern("bvneg", a.W, 0, a)
}

// Cmp: op in bvult bvule bvslt bvsle (others derived)
func (cx *TermCtx) Cmp(op string, a, b *Term) *Term {
	if a.W != b.W {
		panic(fmt.Sprintf("Cmp %s width mismatch %d %d", op, a.W, b.W))
	}
	switch op {
	case "bvugt":
		return cx.Cmp("bvult", b, a)
	case "bvuge":
		return cx.Cmp("bvule", b, a)
	case "bvsgt":
		return cx.Cmp("bvslt", b, a)
	case "bvsge":
		return cx.Cmp("bvsle", b, a)
	}
	if a.IsConst() && b.IsConst() {
		switch op {
		case "bvult":
			return mkBool(a.C < b.C)
		case "bvule":
			return mkBool(a.C <= b.C)
		case "bvslt":
			return mkBool(a.Sval() < b.Sval())
		case "bvsle":
			return mkBool(a.Sval() <= b.Sval())
		}
	}
	if a == b {
		return mkBool(op == "bvule" || op == "bvsle")
	}
	if b.IsConst() && (op == "bvult" || op == "bvule") {
		// cheap range facts: (x | c1) >= c1 ; (x & m) <= m
		if a.Op == "bvor" && a.Args[1].IsConst() {
			c1 := a.Args[1].C
			if (op == "bvult" && c1 >= b.C) || (op == "bvule" && c1 > b.C) {
				return tFalse
			}
		}
		if a.Op == "bvand" && a.Args[1].IsConst() {
			m := a.Args[1].C
			if (op == "bvult" && m < b.C) || (op == "bvule" && m <= b.C) {
				return tTrue
			}
		}
	}
	switch op {
	case "bvult":
		if b.IsConst() && b.C == 0 {
			return tFalse
		}
		if a.IsConst() && a.C == mask(a.W) {
			return tFalse
		}
		// zext(x) < const beyond range
		if a.Op == "zext" && b.IsConst() && b.C > mask(a.Args[0].W) {
			return tTrue
		}
	case "bvule":
		if a.IsConst() && a.C == 0 {
			return tTrue
		}
		if b.IsConst() && b.C == mask(b.W) {
			return tTrue
		}
		if a.Op == "zext" && b.IsConst() && b.C >= mask(a.Args[0].W) {
			return tTrue
		}
	case "bvslt", "bvsle":
		// zext(x) non-negative comparisons with constants
		if a.Op == "zext" && b.IsConst() {
			sb := b.Sval()
			if sb < 0 {
				return tFalse
			}
			if uint64(sb) > mask(a.Args[0].W) {
				return tTrue
			}
		}
		if b.Op == "zext" && a.IsConst() {
			sa := a.Sval()
			if sa < 0 || (sa == 0 && op == "bvsle") {
				return tTrue
			}
		}
	}
	return cx.intern(op, 0, 0, a, b)
}

func (cx *TermCtx) Extract(hi, lo int, a *Term) *Term {
	if lo == 0 && hi == a.W-1 {
		return a
	}
	w := hi - lo + 1
	if a.IsConst() {
		return mkConst(w, a.C>>uint(lo))
	}
	if lo == 0 && (a.Op == "zext" || a.Op == "sext") {
		x := a.Args[0]
		if w == x.W {
			return x
		}
		if w < x.W {
			return cx.Extract(hi, 0, x)
		}
		if a.Op == "zext" {
			return cx.ZExt(x, w)
		}
		return cx.SExt(x, w)
	}
	return cx.intern("extract", w, uint64(hi)<<8|uint64(lo), a)
}

func (cx *TermCtx) ZExt(a *Term, w int) *Term {
	if w == a.W {
		return a
	}
	if w < a.W {
		return cx.Extract(w-1, 0, a)
	}
	if a.IsConst() {
		return mkConst(w, a.C)
	}
	if a.Op == "zext" {
		return cx.ZExt(a.Args[0], w)
	}
	return cx.intern("zext", w, uint64(w-a.W), a)
}

func (cx *TermCtx) SExt(a *Term, w int) *Term {
	if w == a.W {
		return a
	}
	if w < a.W {
		return cx.Extract(w-1, 0, a)
	}
	if a.IsConst() {
		return mkConst(w, uint64(a.Sval()))
	}
	if a.Op == "zext" {
		return cx.ZExt(a.Args[0], w)
	}
	return cx.intern("sext", w, uint64(w-a.W), a)
}

// BoolToBV: ite(b, 1, 0)
func (cx *TermCtx) BoolToBV(b *Term, w int) *Term {
	return cx.Ite(b, mkConst(w, 1), mkConst(w, 0))
}

// ---------- printing

func sortOf(w int) string {
	if w == 0 {
		return "Bool"
	}
	return "(_ BitVec " + strconv.Itoa(w) + ")"
}

func constStr(t *Term) string {
	if t.W == 0 {
		if t.C != 0 {
			return "true"
		}
		return "false"
	}
	if t.W%4 == 0 {
		return fmt.Sprintf("#x%0*x", t.W/4, t.C)
	}
	return fmt.Sprintf("#b%0*b", t.W, t.C)
}

// String renders a term fully inline (debugging / samples).
func (t *Term) String() string {
	var sb strings.Builder
	t.write(&sb, 0)
	return sb.String()
}

func (t *Term) write(sb *strings.Builder, depth int) {
	if depth > 40 {
		sb.WriteString("...")
		return
	}
	switch t.Op {
	case "const":
		sb.WriteString(constStr(t))
	case "var":
		sb.WriteString(t.Name)
	default:
		sb.WriteString("(")
		sb.WriteString(opHead(t))
		for _, a := range t.Args {
			sb.WriteString(" ")
			a.write(sb, depth+1)
		}
		sb.WriteString(")")
	}
}

func opHead(t *Term) string {
	switch t.Op {
	case "extract":
		return fmt.Sprintf("(_ extract %d %d)", t.C>>8, t.C&0xff)
	case "zext":
		return fmt.Sprintf("(_ zero_extend %d)", t.C)
	case "sext":
		return fmt.Sprintf("(_ sign_extend %d)", t.C)
	}
	return t.Op
}

func popcount(x uint64) int { return bits.OnesCount64(x) }
