package main

// Intrinsics: functions without Go bodies (assembly/runtime), the verifrt harness
// API, and a few functions replaced for symbolic efficiency. Every intrinsic used on
// a run is listed in the evidence.

import (
	"fmt"
	"go/types"
	"math"
	"os"
	"strings"
	"unsafe"

	"golang.org/x/tools/go/ssa"
)

type intrinsic func(x *Exec, fr *frame, args []Value) Value

type NativeFunc struct {
	name string
	f    func(x *Exec, args []Value) Value
}

const rtPath = "github.com/sourcegraph/zoekt/zz_verifrt"

var intrinsics map[string]intrinsic

func init() {
	intrinsics = map[string]intrinsic{}
	reg := func(name string, f intrinsic) { intrinsics[name] = f }
	rt := func(name string, f intrinsic) { intrinsics[rtPath+"."+name] = f }

	// ---- verifrt: nondet inputs
	mkIn := func(w int) intrinsic {
		return func(x *Exec, fr *frame, args []Value) Value {
			return x.freshInput(strArg(args[0]), w)
		}
	}
	rt("Bool", func(x *Exec, fr *frame, args []Value) Value {
		v := x.freshInput(strArg(args[0]), 8)
		x.Assume(x.cx.Cmp("bvule", v, mkConst(8, 1)))
		return x.cx.Eq(v, mkConst(8, 1))
	})
	rt("U8", mkIn(8))
	rt("U16", mkIn(16))
	rt("U32", mkIn(32))
	rt("U64", mkIn(64))
	rt("I32", mkIn(32))
	rt("I64", mkIn(64))
	rt("Int", mkIn(64))
	rt("Rune", mkIn(32))
	rt("IntRange", func(x *Exec, fr *frame, args []Value) Value {
		v := x.freshInput(strArg(args[0]), 64)
		lo, hi := args[1].(*Term), args[2].(*Term)
		x.Assume(x.cx.And(x.cx.Cmp("bvsle", lo, v), x.cx.Cmp("bvsle", v, hi)))
		return v
	})
	rt("Bytes", func(x *Exec, fr *frame, args []Value) Value {
		n := x.concreteInt(args[1], "Bytes length")
		a := make([]Value, n)
		name := strArg(args[0])
		for i := range a {
			a[i] = x.freshInput(fmt.Sprintf("%s_%d", name, i), 8)
		}
		return Slice{A: a, NotNil: true}
	})
	rt("String", func(x *Exec, fr *frame, args []Value) Value {
		n := x.concreteInt(args[1], "String length")
		b := make([]*Term, n)
		name := strArg(args[0])
		for i := range b {
			b[i] = x.freshInput(fmt.Sprintf("%s_%d", name, i), 8)
		}
		return normStr(b)
	})
	rt("Assume", func(x *Exec, fr *frame, args []Value) Value {
		x.Assume(args[0].(*Term))
		return nil
	})
	rt("Assert", func(x *Exec, fr *frame, args []Value) Value {
		x.curFrame = fr.caller
		x.Assert(args[0].(*Term), strArg(args[1]))
		return nil
	})
	rt("Reach", func(x *Exec, fr *frame, args []Value) Value {
		x.reach[strArg(args[0])] = true
		return nil
	})
	rt("Observe", func(x *Exec, fr *frame, args []Value) Value {
		v := args[1]
		if i, ok := v.(Iface); ok {
			v = i.V
		}
		x.obsLabels = append(x.obsLabels, strArg(args[0]))
		x.obsTerms = append(x.obsTerms, snapshotVal(v))
		return nil
	})
	rt("And", func(x *Exec, fr *frame, args []Value) Value { return x.cx.And(args[0].(*Term), args[1].(*Term)) })
	rt("Or", func(x *Exec, fr *frame, args []Value) Value { return x.cx.Or(args[0].(*Term), args[1].(*Term)) })
	rt("Implies", func(x *Exec, fr *frame, args []Value) Value {
		return x.cx.Or(x.cx.Not(args[0].(*Term)), args[1].(*Term))
	})
	rt("IteInt", func(x *Exec, fr *frame, args []Value) Value {
		return x.cx.Ite(args[0].(*Term), args[1].(*Term), args[2].(*Term))
	})
	rt("IteU8", func(x *Exec, fr *frame, args []Value) Value {
		return x.cx.Ite(args[0].(*Term), args[1].(*Term), args[2].(*Term))
	})
	rt("IteU32", func(x *Exec, fr *frame, args []Value) Value {
		return x.cx.Ite(args[0].(*Term), args[1].(*Term), args[2].(*Term))
	})
	rt("B2I", func(x *Exec, fr *frame, args []Value) Value { return x.cx.BoolToBV(args[0].(*Term), 64) })
	rt("MapOrderNondet", func(x *Exec, fr *frame, args []Value) Value {
		x.mapOrderNondet = args[0].(*Term).IsTrue()
		return nil
	})
	rt("AllocBound", func(x *Exec, fr *frame, args []Value) Value {
		x.allocBound = x.concreteInt(args[0], "AllocBound")
		return nil
	})
	rt("Param", func(x *Exec, fr *frame, args []Value) Value {
		if x.eng.tier == "thorough" {
			return args[2]
		}
		return args[1]
	})
	rt("Concretize", func(x *Exec, fr *frame, args []Value) Value {
		t := args[0].(*Term)
		return mkConst(64, x.Concretize(t, "verifrt.Concretize"))
	})
	rt("LoopBudget", func(x *Exec, fr *frame, args []Value) Value {
		x.loopBudget = int(x.concreteInt(args[0], "LoopBudget"))
		x.stepBudget = x.concreteInt(args[1], "LoopBudget steps")
		x.stepBudgetStart = x.steps
		return nil
	})
	rt("LoopBudgetEnd", func(x *Exec, fr *frame, args []Value) Value {
		x.loopBudget, x.stepBudget = 0, 0
		return nil
	})
	rt("AllocCheck", func(x *Exec, fr *frame, args []Value) Value { return nil })
	b2s := func(x *Exec, fr *frame, args []Value) Value { return normStr(sliceTerms(args[0])) }
	reg("github.com/sourcegraph/zoekt/query.b2s", b2s)
	reg("github.com/sourcegraph/zoekt.b2s", b2s)
	rt("Debug", func(x *Exec, fr *frame, args []Value) Value { return nil })
	rt("IsSymbolic", func(x *Exec, fr *frame, args []Value) Value { return tTrue })
	rt("loadVector", func(x *Exec, fr *frame, args []Value) Value { return nil })
	rt("Unsupported", func(x *Exec, fr *frame, args []Value) Value { panic(unsupported{strArg(args[0])}) })
	rt("Sprintf", intrSprintf)

	// ---- bytes / strings / bytealg
	reg("internal/bytealg.IndexByte", func(x *Exec, fr *frame, args []Value) Value {
		return x.indexByte(sliceTerms(args[0]), args[1].(*Term))
	})
	reg("internal/bytealg.IndexByteString", func(x *Exec, fr *frame, args []Value) Value {
		return x.indexByte(args[0].(Str).bytes(), args[1].(*Term))
	})
	reg("bytes.IndexByte", intrinsics["internal/bytealg.IndexByte"])
	reg("strings.IndexByte", intrinsics["internal/bytealg.IndexByteString"])
	reg("internal/bytealg.Count", func(x *Exec, fr *frame, args []Value) Value {
		return x.countByte(sliceTerms(args[0]), args[1].(*Term))
	})
	reg("internal/bytealg.CountString", func(x *Exec, fr *frame, args []Value) Value {
		return x.countByte(args[0].(Str).bytes(), args[1].(*Term))
	})
	reg("internal/bytealg.Equal", func(x *Exec, fr *frame, args []Value) Value {
		return x.bytesEq(sliceTerms(args[0]), sliceTerms(args[1]))
	})
	reg("bytes.Equal", intrinsics["internal/bytealg.Equal"])
	reg("internal/bytealg.Compare", func(x *Exec, fr *frame, args []Value) Value {
		return x.bytesCompare(sliceTerms(args[0]), sliceTerms(args[1]))
	})
	reg("internal/bytealg.CompareString", func(x *Exec, fr *frame, args []Value) Value {
		return x.bytesCompare(args[0].(Str).bytes(), args[1].(Str).bytes())
	})
	reg("bytes.Compare", intrinsics["internal/bytealg.Compare"])
	reg("strings.Compare", intrinsics["internal/bytealg.CompareString"])
	reg("cmp.Compare[string]", intrinsics["internal/bytealg.CompareString"])
	reg("internal/bytealg.Index", func(x *Exec, fr *frame, args []Value) Value {
		return x.indexSub(sliceTerms(args[0]), sliceTerms(args[1]))
	})
	reg("internal/bytealg.IndexString", func(x *Exec, fr *frame, args []Value) Value {
		return x.indexSub(args[0].(Str).bytes(), args[1].(Str).bytes())
	})
	reg("bytes.Index", intrinsics["internal/bytealg.Index"])
	reg("strings.Index", intrinsics["internal/bytealg.IndexString"])
	reg("internal/bytealg.LastIndexByte", func(x *Exec, fr *frame, args []Value) Value {
		return x.lastIndexByte(sliceTerms(args[0]), args[1].(*Term))
	})
	reg("internal/bytealg.LastIndexByteString", func(x *Exec, fr *frame, args []Value) Value {
		return x.lastIndexByte(args[0].(Str).bytes(), args[1].(*Term))
	})
	reg("bytes.LastIndexByte", intrinsics["internal/bytealg.LastIndexByte"])
	reg("strings.LastIndexByte", intrinsics["internal/bytealg.LastIndexByteString"])
	reg("internal/bytealg.MakeNoZero", func(x *Exec, fr *frame, args []Value) Value {
		n := x.concreteInt(args[0], "MakeNoZero")
		a := make([]Value, n)
		for i := range a {
			a[i] = mkConst(8, 0)
		}
		return Slice{A: a, NotNil: true}
	})
	reg("internal/stringslite.Index", intrinsics["internal/bytealg.IndexString"])
	reg("internal/stringslite.IndexByte", intrinsics["internal/bytealg.IndexByteString"])
	reg("internal/abi.NoEscape", func(x *Exec, fr *frame, args []Value) Value { return args[0] })
	reg("internal/abi.Escape", func(x *Exec, fr *frame, args []Value) Value { return args[0] })
	reg("internal/race.Enabled", nil)
	delete(intrinsics, "internal/race.Enabled")

	// ---- unicode/utf8 (forking decoders, cheaper than table lookups on symbolic bytes)
	reg("unicode/utf8.DecodeRune", func(x *Exec, fr *frame, args []Value) Value {
		s := normStr(sliceTerms(args[0]))
		r, sz := x.decodeRune(s, 0)
		return Tuple{r, mkConst(64, uint64(sz))}
	})
	reg("unicode/utf8.DecodeRuneInString", func(x *Exec, fr *frame, args []Value) Value {
		r, sz := x.decodeRune(args[0].(Str), 0)
		return Tuple{r, mkConst(64, uint64(sz))}
	})
	reg("unicode/utf8.RuneCount", func(x *Exec, fr *frame, args []Value) Value {
		return mkConst(64, uint64(len(x.decodeRunes(normStr(sliceTerms(args[0]))))))
	})
	reg("unicode/utf8.RuneCountInString", func(x *Exec, fr *frame, args []Value) Value {
		return mkConst(64, uint64(len(x.decodeRunes(args[0].(Str)))))
	})
	validFn := func(x *Exec, s Str) Value {
		for pos := 0; pos < s.Len(); {
			r, sz := x.decodeRune(s, pos)
			if sz == 1 {
				// RuneError with size 1 = invalid (a literal U+FFFD is 3 bytes)
				if r.IsConst() && r.C == 0xFFFD {
					return tFalse
				}
			}
			pos += sz
		}
		return tTrue
	}
	reg("unicode/utf8.Valid", func(x *Exec, fr *frame, args []Value) Value {
		return validFn(x, normStr(sliceTerms(args[0])))
	})
	reg("unicode/utf8.ValidString", func(x *Exec, fr *frame, args []Value) Value { return validFn(x, args[0].(Str)) })

	// ---- sync/atomic function forms
	atomicLoad := func(x *Exec, fr *frame, args []Value) Value { return x.load(nil, args[0]) }
	atomicStore := func(x *Exec, fr *frame, args []Value) Value {
		x.storeTo(nil, args[0], args[1])
		return nil
	}
	atomicAdd := func(x *Exec, fr *frame, args []Value) Value {
		v := x.cx.Bin("bvadd", x.load(nil, args[0]).(*Term), args[1].(*Term))
		x.storeTo(nil, args[0], v)
		return v
	}
	atomicSwap := func(x *Exec, fr *frame, args []Value) Value {
		old := x.load(nil, args[0])
		x.storeTo(nil, args[0], args[1])
		return old
	}
	atomicCAS := func(x *Exec, fr *frame, args []Value) Value {
		cur := x.load(nil, args[0])
		eq := x.equals(nil, cur, args[1])
		if x.Decide(eq) {
			x.storeTo(nil, args[0], args[2])
			return tTrue
		}
		return tFalse
	}
	for _, pk := range []string{"sync/atomic", "internal/runtime/atomic"} {
		for _, ty := range []string{"Int32", "Int64", "Uint32", "Uint64", "Uintptr", "Pointer"} {
			reg(pk+".Load"+ty, atomicLoad)
			reg(pk+".Store"+ty, atomicStore)
			reg(pk+".Add"+ty, atomicAdd)
			reg(pk+".Swap"+ty, atomicSwap)
			reg(pk+".CompareAndSwap"+ty, atomicCAS)
		}
	}
	// generic atomic.Pointer[T] methods have Go bodies using unsafe casts: replace
	reg("(*sync/atomic.Pointer[T]).Load", func(x *Exec, fr *frame, args []Value) Value {
		return (*args[0].(*Value)).(Struct)[2]
	})
	reg("(*sync/atomic.Pointer[T]).Store", func(x *Exec, fr *frame, args []Value) Value {
		(*args[0].(*Value)).(Struct)[2] = args[1]
		return nil
	})
	reg("(*sync/atomic.Pointer[T]).Swap", func(x *Exec, fr *frame, args []Value) Value {
		st := (*args[0].(*Value)).(Struct)
		old := st[2]
		st[2] = args[1]
		return old
	})
	reg("(*sync/atomic.Pointer[T]).CompareAndSwap", func(x *Exec, fr *frame, args []Value) Value {
		st := (*args[0].(*Value)).(Struct)
		if st[2] == args[1] {
			st[2] = args[2]
			return tTrue
		}
		return tFalse
	})
	reg("(*sync/atomic.Value).Load", func(x *Exec, fr *frame, args []Value) Value {
		st := (*args[0].(*Value)).(Struct)
		return st[0]
	})
	reg("(*sync/atomic.Value).Store", func(x *Exec, fr *frame, args []Value) Value {
		st := (*args[0].(*Value)).(Struct)
		st[0] = args[1]
		return nil
	})

	// ---- runtime
	nop := func(x *Exec, fr *frame, args []Value) Value { return nil }
	reg("runtime.KeepAlive", nop)
	reg("runtime.SetFinalizer", nop)
	reg("runtime.Gosched", func(x *Exec, fr *frame, args []Value) Value { x.yield(fr); return nil })
	reg("runtime.GC", nop)
	reg("runtime.GOMAXPROCS", func(x *Exec, fr *frame, args []Value) Value { return mkConst(64, uint64(x.eng.gomaxprocs())) })
	reg("runtime.NumCPU", func(x *Exec, fr *frame, args []Value) Value { return mkConst(64, uint64(x.eng.gomaxprocs())) })
	reg("os.Getenv", func(x *Exec, fr *frame, args []Value) Value {
		return Str{S: x.eng.getenv(strArg(args[0]))}
	})
	reg("os.LookupEnv", func(x *Exec, fr *frame, args []Value) Value {
		v := x.eng.getenv(strArg(args[0]))
		return Tuple{Str{S: v}, mkBool(v != "")}
	})
	reg("os.Getpid", func(x *Exec, fr *frame, args []Value) Value { return mkConst(64, 4242) })

	// ---- sync (single-thread fast path; thread model hooks in threads.go)
	reg("(*sync.Mutex).Lock", func(x *Exec, fr *frame, args []Value) Value { x.mutexLock(fr, args[0], false); return nil })
	reg("(*sync.Mutex).Unlock", func(x *Exec, fr *frame, args []Value) Value { x.mutexUnlock(fr, args[0], false); return nil })
	reg("(*sync.Mutex).TryLock", func(x *Exec, fr *frame, args []Value) Value { return x.mutexTryLock(fr, args[0]) })
	// Go 1.25: sync.Map's HashTrieMap locks internal/sync.Mutex directly
	reg("(*internal/sync.Mutex).Lock", func(x *Exec, fr *frame, args []Value) Value { x.mutexLock(fr, args[0], false); return nil })
	reg("(*internal/sync.Mutex).Unlock", func(x *Exec, fr *frame, args []Value) Value { x.mutexUnlock(fr, args[0], false); return nil })
	reg("(*internal/sync.Mutex).TryLock", func(x *Exec, fr *frame, args []Value) Value { return x.mutexTryLock(fr, args[0]) })
	reg("(*sync.RWMutex).Lock", func(x *Exec, fr *frame, args []Value) Value { x.mutexLock(fr, args[0], false); return nil })
	reg("(*sync.RWMutex).Unlock", func(x *Exec, fr *frame, args []Value) Value { x.mutexUnlock(fr, args[0], false); return nil })
	reg("(*sync.RWMutex).RLock", func(x *Exec, fr *frame, args []Value) Value { x.mutexLock(fr, args[0], true); return nil })
	reg("(*sync.RWMutex).RUnlock", func(x *Exec, fr *frame, args []Value) Value { x.mutexUnlock(fr, args[0], true); return nil })
	reg("(*sync.RWMutex).TryLock", func(x *Exec, fr *frame, args []Value) Value { return x.mutexTryLock(fr, args[0]) })
	reg("(*sync.Once).Do", func(x *Exec, fr *frame, args []Value) Value {
		st := (*args[0].(*Value)).(Struct)
		// field 0 is `done` (atomic.Uint32 struct or uint32 depending on version); use a side table
		if x.onceDone == nil {
			x.onceDone = map[*Value]bool{}
		}
		_ = st
		if !x.onceDone[args[0].(*Value)] {
			x.onceDone[args[0].(*Value)] = true
			x.call(fr, args[1], nil)
		}
		return nil
	})
	reg("(*sync.WaitGroup).Add", func(x *Exec, fr *frame, args []Value) Value { x.wgAdd(fr, args[0], args[1].(*Term).Sval()); return nil })
	reg("(*sync.WaitGroup).Done", func(x *Exec, fr *frame, args []Value) Value { x.wgAdd(fr, args[0], -1); return nil })
	reg("(*sync.WaitGroup).Wait", func(x *Exec, fr *frame, args []Value) Value { x.wgWait(fr, args[0]); return nil })
	// sync.Pool: Get hands back the most recently Put item if there is one (the case in which reuse
	// bugs show; a pool may always do so), otherwise New() or nil
	reg("(*sync.Pool).Get", func(x *Exec, fr *frame, args []Value) Value {
		p := args[0].(*Value)
		if items := x.pools[p]; len(items) > 0 {
			it := items[len(items)-1]
			x.pools[p] = items[:len(items)-1]
			return it
		}
		st := (*p).(Struct)
		newf := st[len(st)-1]
		if f, ok := newf.(*ssa.Function); ok && f == nil {
			return Iface{}
		}
		return x.call(fr, newf, nil)
	})
	reg("(*sync.Pool).Put", func(x *Exec, fr *frame, args []Value) Value {
		if x.pools == nil {
			x.pools = map[*Value][]Value{}
		}
		p := args[0].(*Value)
		x.pools[p] = append(x.pools[p], args[1])
		return nil
	})

	// ---- math
	reg("math.Float64bits", func(x *Exec, fr *frame, args []Value) Value { return mkConst(64, math.Float64bits(args[0].(float64))) })
	reg("math.Float64frombits", func(x *Exec, fr *frame, args []Value) Value {
		return math.Float64frombits(x.concreteIntT(args[0].(*Term), "Float64frombits"))
	})
	reg("math.Float32bits", func(x *Exec, fr *frame, args []Value) Value {
		return mkConst(32, uint64(math.Float32bits(float32(args[0].(float64)))))
	})
	reg("math.Float32frombits", func(x *Exec, fr *frame, args []Value) Value {
		return float64(math.Float32frombits(uint32(x.concreteIntT(args[0].(*Term), "Float32frombits"))))
	})
	f1 := func(f func(float64) float64) intrinsic {
		return func(x *Exec, fr *frame, args []Value) Value { return f(args[0].(float64)) }
	}
	f2 := func(f func(a, b float64) float64) intrinsic {
		return func(x *Exec, fr *frame, args []Value) Value { return f(args[0].(float64), args[1].(float64)) }
	}
	reg("math.Log", f1(math.Log))
	reg("math.Log2", f1(math.Log2))
	reg("math.Log10", f1(math.Log10))
	reg("math.Log1p", f1(math.Log1p))
	reg("math.Exp", f1(math.Exp))
	reg("math.Sqrt", f1(math.Sqrt))
	reg("math.Floor", f1(math.Floor))
	reg("math.Ceil", f1(math.Ceil))
	reg("math.Trunc", f1(math.Trunc))
	reg("math.Abs", f1(math.Abs))
	reg("math.Round", f1(math.Round))
	reg("math.Pow", f2(math.Pow))
	reg("math.Max", f2(math.Max))
	reg("math.Min", f2(math.Min))
	reg("math.Mod", f2(math.Mod))
	reg("math.Inf", func(x *Exec, fr *frame, args []Value) Value { return math.Inf(int(args[0].(*Term).Sval())) })
	reg("math.IsNaN", func(x *Exec, fr *frame, args []Value) Value { return mkBool(math.IsNaN(args[0].(float64))) })
	reg("math.IsInf", func(x *Exec, fr *frame, args []Value) Value {
		return mkBool(math.IsInf(args[0].(float64), int(args[1].(*Term).Sval())))
	})
	reg("math.NaN", func(x *Exec, fr *frame, args []Value) Value { return math.NaN() })

	// ---- errors
	reg("errors.Is", intrErrorsIs)
	reg("errors.As", intrErrorsAs)

	// ---- fmt (native on concrete data; opaque token otherwise)
	reg("fmt.Sprintf", intrSprintf)
	reg("fmt.Errorf", intrErrorf)
	reg("fmt.Sprint", func(x *Exec, fr *frame, args []Value) Value {
		return Str{S: x.nativeSprint(args[0].(Slice).A, false)}
	})
	reg("fmt.Sprintln", func(x *Exec, fr *frame, args []Value) Value {
		return Str{S: x.nativeSprint(args[0].(Slice).A, true) + "\n"}
	})
	// Fprint*: formatted natively (concrete arguments) and written through the writer's own Write
	// method when the writer is interpreted code (bytes.Buffer, strings.Builder, harness writers);
	// *os.File and writers of blackholed packages are discarded.
	fwrite := func(x *Exec, fr *frame, w Value, text Str) Value {
		iw, ok := w.(Iface)
		if !ok || iw.T == nil || strings.Contains(iw.T.String(), "os.File") {
			return Tuple{mkConst(64, 0), Iface{}}
		}
		m := x.eng.lookupMethodSafe(iw.T, "Write")
		if m == nil || (m.Pkg != nil && x.eng.isBlackhole(m.Pkg.Pkg.Path())) {
			return Tuple{mkConst(64, 0), Iface{}}
		}
		bs := text.bytes()
		a := make([]Value, len(bs))
		for i, b := range bs {
			a[i] = b
		}
		return x.callFunction(fr, m, []Value{iw.V, Slice{A: a, NotNil: true}}, nil)
	}
	reg("fmt.Fprintf", func(x *Exec, fr *frame, args []Value) Value {
		return fwrite(x, fr, args[0], intrSprintf(x, fr, args[1:]).(Str))
	})
	reg("fmt.Fprintln", func(x *Exec, fr *frame, args []Value) Value {
		return fwrite(x, fr, args[0], Str{S: x.nativeSprint(args[1].(Slice).A, true) + "\n"})
	})
	reg("fmt.Fprint", func(x *Exec, fr *frame, args []Value) Value {
		return fwrite(x, fr, args[0], Str{S: x.nativeSprint(args[1].(Slice).A, false)})
	})
	discard := func(x *Exec, fr *frame, args []Value) Value { return Tuple{mkConst(64, 0), Iface{}} }
	reg("fmt.Printf", discard)
	reg("fmt.Println", discard)
	reg("fmt.Print", discard)
	reg("fmt.Appendf", func(x *Exec, fr *frame, args []Value) Value {
		s := intrSprintf(x, fr, args[1:]).(Str)
		dst := args[0].(Slice)
		a := append([]Value(nil), dst.A...)
		for _, b := range s.bytes() {
			a = append(a, b)
		}
		return Slice{A: a, NotNil: true}
	})

	// ---- sort.Slice family (reflection-free)
	reg("sort.Slice", func(x *Exec, fr *frame, args []Value) Value { x.sortSlice(fr, args[0], args[1], false); return nil })
	reg("sort.SliceStable", func(x *Exec, fr *frame, args []Value) Value { x.sortSlice(fr, args[0], args[1], true); return nil })

	// ---- reflect (identity only)
	reg("reflect.TypeOf", func(x *Exec, fr *frame, args []Value) Value {
		i := args[0].(Iface)
		if i.T == nil {
			return Iface{}
		}
		return Iface{T: rtypeMarker, V: RType{i.T}}
	})
	reg("internal/reflectlite.TypeOf", intrinsics["reflect.TypeOf"])
	reg("reflect.DeepEqual", func(x *Exec, fr *frame, args []Value) Value {
		return x.deepEqual(args[0], args[1], 0)
	})

	// ---- time
	reg("time.Now", func(x *Exec, fr *frame, args []Value) Value { return x.timeNow(fr) })
	reg("time.Since", func(x *Exec, fr *frame, args []Value) Value { return mkConst(64, 0) })
	reg("time.Sleep", nop)
	reg("time.runtimeNano", func(x *Exec, fr *frame, args []Value) Value { return mkConst(64, 1) })
	reg("time.now", func(x *Exec, fr *frame, args []Value) Value {
		return Tuple{mkConst(64, 1700000000), mkConst(32, 0), mkConst(64, 1)}
	})

	// ---- log
	for _, n := range []string{"log.Printf", "log.Println", "log.Print", "(*log.Logger).Printf", "(*log.Logger).Println", "(*log.Logger).Print", "(*log.Logger).Output"} {
		reg(n, func(x *Exec, fr *frame, args []Value) Value { return zeroResults(fr.fn.Signature) })
	}
	for _, n := range []string{"log.Fatalf", "log.Fatal", "log.Fatalln", "log.Panicf", "log.Panic", "log.Panicln"} {
		name := n
		reg(n, func(x *Exec, fr *frame, args []Value) Value {
			x.goPanic(Iface{T: types.Typ[types.String], V: Str{S: name + " called"}})
			return nil
		})
	}
	reg("os.Exit", func(x *Exec, fr *frame, args []Value) Value {
		x.goPanic(Iface{T: types.Typ[types.String], V: Str{S: "os.Exit called"}})
		return nil
	})
}

func strArg(v Value) string {
	s, ok := v.(Str)
	if !ok || s.B != nil {
		return "?"
	}
	return s.S
}

func sliceTerms(v Value) []*Term {
	s := v.(Slice)
	r := make([]*Term, len(s.A))
	for i, e := range s.A {
		r[i] = e.(*Term)
	}
	return r
}

func snapshotVal(v Value) Value {
	switch v := v.(type) {
	case Slice:
		a := make([]Value, len(v.A))
		for i, e := range v.A {
			a[i] = snapshotVal(e)
		}
		return Slice{A: a, NotNil: v.NotNil}
	case Struct, Array:
		return copyVal(v)
	}
	return v
}

// freshAux: engine-level nondeterminism (clock, schedule, select, map order); not part of
// the harness input vector.
func (x *Exec) freshAux(name string, w int) *Term {
	t := x.cx.Var(name, w)
	x.auxVars = append(x.auxVars, t)
	return t
}

func (x *Exec) freshInput(name string, w int) *Term {
	t := x.cx.Var(name, w)
	x.inVars = append(x.inVars, t)
	x.inNames = append(x.inNames, name)
	return t
}

// ---- byte-string primitives on (possibly symbolic) byte terms

func (x *Exec) indexByte(b []*Term, c *Term) *Term {
	res := mkConst(64, ^uint64(0))
	for i := len(b) - 1; i >= 0; i-- {
		res = x.cx.Ite(x.cx.Eq(b[i], c), mkConst(64, uint64(i)), res)
	}
	return res
}

func (x *Exec) lastIndexByte(b []*Term, c *Term) *Term {
	res := mkConst(64, ^uint64(0))
	for i := 0; i < len(b); i++ {
		res = x.cx.Ite(x.cx.Eq(b[i], c), mkConst(64, uint64(i)), res)
	}
	return res
}

func (x *Exec) countByte(b []*Term, c *Term) *Term {
	res := mkConst(64, 0)
	for i := range b {
		res = x.cx.Bin("bvadd", res, x.cx.BoolToBV(x.cx.Eq(b[i], c), 64))
	}
	return res
}

func (x *Exec) bytesEq(a, b []*Term) *Term {
	if len(a) != len(b) {
		return tFalse
	}
	r := tTrue
	for i := range a {
		r = x.cx.And(r, x.cx.Eq(a[i], b[i]))
		if r.IsFalse() {
			break
		}
	}
	return r
}

func (x *Exec) bytesCompare(a, b []*Term) *Term {
	n := len(a)
	if len(b) < n {
		n = len(b)
	}
	var res *Term
	switch {
	case len(a) < len(b):
		res = mkConst(64, ^uint64(0))
	case len(a) > len(b):
		res = mkConst(64, 1)
	default:
		res = mkConst(64, 0)
	}
	for i := n - 1; i >= 0; i-- {
		lt := x.cx.Cmp("bvult", a[i], b[i])
		eq := x.cx.Eq(a[i], b[i])
		res = x.cx.Ite(eq, res, x.cx.Ite(lt, mkConst(64, ^uint64(0)), mkConst(64, 1)))
	}
	return res
}

func (x *Exec) indexSub(s, sep []*Term) *Term {
	if len(sep) == 0 {
		return mkConst(64, 0)
	}
	res := mkConst(64, ^uint64(0))
	for i := len(s) - len(sep); i >= 0; i-- {
		res = x.cx.Ite(x.bytesEq(s[i:i+len(sep)], sep), mkConst(64, uint64(i)), res)
	}
	return res
}

// ---- errors

func (x *Exec) unwrapErr(err Iface) (Iface, bool) {
	if err.T == nil {
		return Iface{}, false
	}
	m := x.eng.lookupMethodSafe(err.T, "Unwrap")
	if m == nil {
		return Iface{}, false
	}
	res := m.Signature.Results()
	if res.Len() != 1 {
		return Iface{}, false
	}
	if _, ok := res.At(0).Type().Underlying().(*types.Interface); !ok {
		return Iface{}, false // Unwrap() []error not followed
	}
	r := x.callFunction(x.curFrame, m, []Value{err.V}, nil)
	i, _ := r.(Iface)
	return i, i.T != nil
}

func intrErrorsIs(x *Exec, fr *frame, args []Value) Value {
	err, target := args[0].(Iface), args[1].(Iface)
	if err.T == nil || target.T == nil {
		return mkBool(err.T == nil && target.T == nil)
	}
	cmpOK := types.Comparable(target.T)
	for depth := 0; depth < 32; depth++ {
		if cmpOK && types.Identical(err.T, target.T) {
			eq := x.equals(err.T, err.V, target.V)
			if x.Decide(eq) {
				return tTrue
			}
		}
		if m := x.eng.lookupMethodSafe(err.T, "Is"); m != nil && m.Signature.Params().Len() == 1 {
			r := x.callFunction(fr, m, []Value{err.V, target}, nil)
			if t, ok := r.(*Term); ok && x.Decide(t) {
				return tTrue
			}
		}
		next, ok := x.unwrapErr(err)
		if !ok {
			return tFalse
		}
		err = next
	}
	return tFalse
}

func intrErrorsAs(x *Exec, fr *frame, args []Value) Value {
	err, target := args[0].(Iface), args[1].(Iface)
	if target.T == nil {
		x.goPanic(Iface{T: types.Typ[types.String], V: Str{S: "errors: target cannot be nil"}})
	}
	pt, ok := target.T.Underlying().(*types.Pointer)
	if !ok {
		x.goPanic(Iface{T: types.Typ[types.String], V: Str{S: "errors: target must be a non-nil pointer"}})
	}
	elem := pt.Elem()
	for depth := 0; depth < 32 && err.T != nil; depth++ {
		match := false
		var val Value
		if it, isI := elem.Underlying().(*types.Interface); isI {
			if types.Implements(err.T, it) {
				match, val = true, err
			}
		} else if types.Identical(err.T, elem) {
			match, val = true, err.V
		}
		if match {
			x.storeTo(elem, target.V, val)
			return tTrue
		}
		next, ok := x.unwrapErr(err)
		if !ok {
			return tFalse
		}
		err = next
	}
	return tFalse
}

// ---- fmt

func (x *Exec) nativeArg(v Value) (interface{}, bool) {
	switch v := v.(type) {
	case Iface:
		if v.T == nil {
			return nil, true
		}
		// error / Stringer: call the method
		if m := x.eng.lookupMethodSafe(v.T, "Error"); m != nil && m.Signature.Params().Len() == 0 {
			if p, isPtr := v.V.(*Value); isPtr && p == nil {
				return "<nil>", true
			}
			r := x.callFunction(x.curFrame, m, []Value{v.V}, nil)
			if s, ok := r.(Str); ok && s.B == nil {
				return s.S, true
			}
			return nil, false
		}
		if m := x.eng.lookupMethodSafe(v.T, "String"); m != nil && m.Signature.Params().Len() == 0 && m.Signature.Results().Len() == 1 {
			if p, isPtr := v.V.(*Value); isPtr && p == nil {
				return "<nil>", true
			}
			r := x.callFunction(x.curFrame, m, []Value{v.V}, nil)
			if s, ok := r.(Str); ok && s.B == nil {
				return s.S, true
			}
			return nil, false
		}
		if t, ok := v.V.(*Term); ok && t.IsConst() {
			if w, signed, isInt := intInfo(v.T); isInt {
				if signed {
					return sext64(t.C, w), true
				}
				if w == 8 {
					return uint8(t.C), true
				}
				return t.C, true
			}
			if isBool(v.T) {
				return t.C != 0, true
			}
		}
		return x.nativeArg(v.V)
	case *Term:
		if v.IsConst() {
			if v.W == 0 {
				return v.C != 0, true
			}
			return v.C, true
		}
		return nil, false
	case Str:
		if v.B == nil {
			return v.S, true
		}
		return nil, false
	case float64:
		return v, true
	case Slice:
		// []byte / []string best effort
		out := make([]interface{}, len(v.A))
		allBytes := true
		for i, e := range v.A {
			n, ok := x.nativeArg(e)
			if !ok {
				return nil, false
			}
			out[i] = n
			if t, isT := e.(*Term); !isT || t.W != 8 {
				allBytes = false
			}
		}
		if allBytes && len(out) > 0 {
			bs := make([]byte, len(out))
			for i, o := range out {
				bs[i] = byte(o.(uint64))
			}
			return bs, true
		}
		return out, true
	case *Value:
		if v == nil {
			return nil, true
		}
		return fmt.Sprintf("0xc%07x", 0x1000), true
	case Struct:
		out := make([]interface{}, len(v))
		for i, e := range v {
			n, ok := x.nativeArg(e)
			if !ok {
				return nil, false
			}
			out[i] = n
		}
		return out, true
	case nil:
		return nil, true
	}
	return nil, false
}

func intrSprintf(x *Exec, fr *frame, args []Value) Value {
	f, ok := args[0].(Str)
	if !ok || f.B != nil {
		return Str{S: "<fmt:symbolic-format>"}
	}
	vs := args[1].(Slice).A
	nat := make([]interface{}, len(vs))
	for i, v := range vs {
		n, ok := x.nativeArg(v)
		if !ok {
			return Str{S: "<fmt:" + f.S + ">"}
		}
		nat[i] = n
	}
	format := strings.ReplaceAll(f.S, "%w", "%v")
	return Str{S: fmt.Sprintf(format, nat...)}
}

func (x *Exec) nativeSprint(vs []Value, ln bool) string {
	nat := make([]interface{}, len(vs))
	for i, v := range vs {
		n, ok := x.nativeArg(v)
		if !ok {
			return "<fmt:sprint>"
		}
		nat[i] = n
	}
	if ln {
		s := fmt.Sprintln(nat...)
		return s[:len(s)-1]
	}
	return fmt.Sprint(nat...)
}

// fmt.Errorf: a *verifrt.FmtError{Msg, Wrapped}
func intrErrorf(x *Exec, fr *frame, args []Value) Value {
	msg := intrSprintf(x, fr, args).(Str)
	var wrapped Value = Iface{}
	if f, ok := args[0].(Str); ok && f.B == nil && strings.Contains(f.S, "%w") {
		// find the operand for %w: count verbs
		idx := 0
		fs := f.S
		for i := 0; i < len(fs); i++ {
			if fs[i] != '%' {
				continue
			}
			i++
			if i < len(fs) && fs[i] == '%' {
				continue
			}
			for i < len(fs) && strings.IndexByte("+-# 0123456789.", fs[i]) >= 0 {
				i++
			}
			if i < len(fs) && fs[i] == 'w' {
				vs := args[1].(Slice).A
				if idx < len(vs) {
					if w, ok := vs[idx].(Iface); ok {
						wrapped = w
					}
				}
				break
			}
			idx++
		}
	}
	T := x.eng.fmtErrT
	if T == nil {
		panic(unsupported{"fmt.Errorf without verifrt.FmtError"})
	}
	cell := new(Value)
	*cell = Struct{msg, wrapped}
	return Iface{T: T, V: cell}
}

// ---- sort.Slice

func (x *Exec) sortSlice(fr *frame, sl Value, less Value, stable bool) {
	s := sl.(Iface).V.(Slice)
	n := len(s.A)
	// insertion sort via the user's less: deterministic; a valid outcome of an unstable sort
	for i := 1; i < n; i++ {
		for j := i; j > 0; j-- {
			r := x.call(fr, less, []Value{mkConst(64, uint64(j)), mkConst(64, uint64(j-1))}).(*Term)
			if !x.Decide(r) {
				break
			}
			s.A[j], s.A[j-1] = s.A[j-1], s.A[j]
		}
	}
}

// ---- reflect.DeepEqual over the value model

func (x *Exec) deepEqual(a, b Value, depth int) *Term {
	if depth > 50 {
		panic(unsupported{"DeepEqual depth"})
	}
	switch av := a.(type) {
	case Iface:
		bv, ok := b.(Iface)
		if !ok {
			return tFalse
		}
		if av.T == nil || bv.T == nil {
			return mkBool(av.T == nil && bv.T == nil)
		}
		if !types.Identical(av.T, bv.T) {
			return tFalse
		}
		return x.deepEqual(av.V, bv.V, depth+1)
	case *Term:
		bv, ok := b.(*Term)
		if !ok || bv.W != av.W {
			return tFalse
		}
		return x.cx.Eq(av, bv)
	case float64:
		bv, ok := b.(float64)
		return mkBool(ok && av == bv)
	case Str:
		bv, ok := b.(Str)
		if !ok {
			return tFalse
		}
		return x.strEq(av, bv)
	case Struct:
		bv, ok := b.(Struct)
		if !ok || len(av) != len(bv) {
			return tFalse
		}
		r := tTrue
		for i := range av {
			r = x.cx.And(r, x.deepEqual(av[i], bv[i], depth+1))
			if r.IsFalse() {
				return r
			}
		}
		return r
	case Array:
		bv, ok := b.(Array)
		if !ok || len(av) != len(bv) {
			return tFalse
		}
		r := tTrue
		for i := range av {
			r = x.cx.And(r, x.deepEqual(av[i], bv[i], depth+1))
			if r.IsFalse() {
				return r
			}
		}
		return r
	case Slice:
		bv, ok := b.(Slice)
		if !ok || len(av.A) != len(bv.A) {
			return tFalse
		}
		if (av.NotNil || len(av.A) > 0) != (bv.NotNil || len(bv.A) > 0) {
			return tFalse
		}
		r := tTrue
		for i := range av.A {
			r = x.cx.And(r, x.deepEqual(av.A[i], bv.A[i], depth+1))
			if r.IsFalse() {
				return r
			}
		}
		return r
	case *Value:
		bv, ok := b.(*Value)
		if !ok {
			return tFalse
		}
		if av == bv {
			return tTrue
		}
		if av == nil || bv == nil {
			return tFalse
		}
		return x.deepEqual(*av, *bv, depth+1)
	case *Map:
		bv, ok := b.(*Map)
		if !ok {
			return tFalse
		}
		if av == nil || bv == nil {
			return mkBool(av == bv)
		}
		if av.n != bv.n {
			return tFalse
		}
		r := tTrue
		for i, k := range av.keys {
			if !av.live[i] {
				continue
			}
			j := x.mapFind(bv, k)
			if j < 0 {
				return tFalse
			}
			r = x.cx.And(r, x.deepEqual(av.vals[i], bv.vals[j], depth+1))
		}
		return r
	case *ssa.Function:
		bf, ok := b.(*ssa.Function)
		return mkBool(ok && av == nil && bf == nil)
	case nil:
		return mkBool(b == nil)
	}
	panic(unsupported{fmt.Sprintf("DeepEqual on %T", a)})
}

func (e *Engine) gomaxprocs() int {
	return e.maxprocs
}

func (e *Engine) getenv(k string) string {
	if v, ok := e.env[k]; ok {
		return v
	}
	return ""
}

var _ = os.Getenv

func (x *Exec) timeNow(fr *frame) Value {
	// time.Time{wall uint64, ext int64, loc *Location}: arbitrary non-decreasing instant
	// (seconds since year 1 in ext, wall = 0: no monotonic reading)
	if x.clockConcrete {
		// harness declared that the code under test does not branch on time: fixed instants 1 ms apart
		x.clockTicks++
		x.stubSeen["time.Now: concrete instants 1 ms apart (verifrt.ClockConcrete)"] = true
		return Struct{mkConst(64, uint64(x.clockTicks%1000)*1_000_000), mkConst(64, uint64(63_900_000_000+x.clockTicks/1000)), (*Value)(nil)}
	}
	t := x.freshAux("now", 64)
	lo := mkConst(64, 63_000_000_000) // ~ year 1997
	hi := mkConst(64, 66_000_000_000) // ~ year 2092
	x.Assume(x.cx.And(x.cx.Cmp("bvsle", lo, t), x.cx.Cmp("bvsle", t, hi)))
	if x.clock != nil {
		if x.clockStrict {
			x.Assume(x.cx.Cmp("bvslt", x.clock, t))
		} else {
			x.Assume(x.cx.Cmp("bvsle", x.clock, t))
		}
	}
	x.clock = t
	return Struct{mkConst(64, 0), t, (*Value)(nil)}
}

func init() {
	rt := func(name string, f intrinsic) { intrinsics[rtPath+"."+name] = f }
	rt("EnableThreads", func(x *Exec, fr *frame, args []Value) Value {
		x.threadsEnabled = true
		x.maxSched = int(x.concreteInt(args[0], "EnableThreads"))
		x.ensureThreads()
		return nil
	})
	rt("Go", func(x *Exec, fr *frame, args []Value) Value {
		x.threadsEnabled = true
		x.spawn(fr, args[0], nil)
		return nil
	})
	rt("PreemptionBound", func(x *Exec, fr *frame, args []Value) Value {
		x.preemptBound = int(x.concreteInt(args[0], "PreemptionBound"))
		return nil
	})
	rt("CanonicalSchedule", func(x *Exec, fr *frame, args []Value) Value {
		x.canonSched = true
		x.preemptBound = -1
		return nil
	})
	rt("WaitUntil", func(x *Exec, fr *frame, args []Value) Value {
		pred := args[0]
		x.schedPoint()
		x.blockUntil(func() bool {
			r := x.call(fr, pred, nil).(*Term)
			if !r.IsConst() {
				panic(unsupported{"verifrt.WaitUntil: predicate must be concrete"})
			}
			return r.C != 0
		}, "verifrt.WaitUntil")
		return nil
	})
	rt("Yield", func(x *Exec, fr *frame, args []Value) Value { x.schedPoint(); return nil })
	rt("ClockConcrete", func(x *Exec, fr *frame, args []Value) Value { x.clockConcrete = true; return nil })
	rt("ClockStrict", func(x *Exec, fr *frame, args []Value) Value { x.clockStrict = true; return nil })
}

func (x *Exec) callRTypeMethod(m *rtypeMethod, args []Value) Value {
	rt := args[0].(RType)
	switch m.name {
	case "String":
		return Str{S: rt.T.String()}
	case "Kind":
		return mkConst(64, 0)
	case "Comparable":
		return mkBool(types.Comparable(rt.T))
	}
	panic(unsupported{"reflect.Type." + m.name})
}

// lookupMethodSafe finds an exported method by name in T's method set (nil if absent).
func (e *Engine) lookupMethodSafe(T types.Type, name string) *ssa.Function {
	if T == nil || T == rtypeMarker {
		return nil
	}
	ms := e.prog.MethodSets.MethodSet(T)
	for i := 0; i < ms.Len(); i++ {
		sel := ms.At(i)
		if sel.Obj().Name() == name && sel.Obj().Exported() {
			return e.prog.MethodValue(sel)
		}
	}
	return nil
}

func init() {
	// slices.overlaps uses unsafe pointer arithmetic: decide it on the engine's backing arrays.
	intrinsics["slices.overlaps"] = func(x *Exec, fr *frame, args []Value) Value {
		a, b := args[0].(Slice).A, args[1].(Slice).A
		if len(a) == 0 || len(b) == 0 {
			return tFalse
		}
		a0 := uintptr(unsafe.Pointer(&a[0]))
		b0 := uintptr(unsafe.Pointer(&b[0]))
		sz := unsafe.Sizeof(a[0])
		aEnd := a0 + uintptr(len(a))*sz - 1
		bEnd := b0 + uintptr(len(b))*sz - 1
		return mkBool(a0 <= bEnd && b0 <= aEnd)
	}
}

// ---- generic struct helpers for harnesses (field lists come from the type, so a field
// added to a struct is covered without touching the harness)

func structOf(x *Exec, v Value) (types.Type, Struct) {
	i := v.(Iface)
	pt, ok := i.T.Underlying().(*types.Pointer)
	if !ok {
		panic(unsupported{"verifrt struct helper needs a pointer to struct"})
	}
	p := i.V.(*Value)
	return pt.Elem(), (*p).(Struct)
}

func skipSet(v Value) map[string]bool {
	m := map[string]bool{}
	for _, n := range strings.Split(strArg(v), ",") {
		if n != "" {
			m[n] = true
		}
	}
	return m
}

// walkInts visits integer fields (recursing into nested structs) in declaration order.
func walkInts(t types.Type, s Struct, skip map[string]bool, prefix string, f func(name string, ft types.Type, cell *Value)) {
	st, ok := t.Underlying().(*types.Struct)
	if !ok {
		return
	}
	for i := 0; i < st.NumFields(); i++ {
		fld := st.Field(i)
		if skip[fld.Name()] {
			continue
		}
		ft := fld.Type()
		if _, _, isInt := intInfo(ft); isInt {
			f(prefix+fld.Name(), ft, &s[i])
			continue
		}
		if _, isStruct := ft.Underlying().(*types.Struct); isStruct {
			if sub, ok := s[i].(Struct); ok {
				walkInts(ft, sub, skip, prefix+fld.Name()+".", f)
			}
		}
	}
}

func init() {
	rt := func(name string, f intrinsic) { intrinsics[rtPath+"."+name] = f }
	// FillInts(ptr, name, lo, hi, skip)
	rt("FillInts", func(x *Exec, fr *frame, args []Value) Value {
		t, s := structOf(x, args[0])
		lo, hi := args[2].(*Term), args[3].(*Term)
		walkInts(t, s, skipSet(args[4]), "", func(name string, ft types.Type, cell *Value) {
			w, signed, _ := intInfo(ft)
			v := x.freshInput(strArg(args[1])+"."+name, w)
			var l, h *Term
			if signed {
				l, h = x.cx.SExt(x.cx.Extract(w-1, 0, lo), w), x.cx.SExt(x.cx.Extract(w-1, 0, hi), w)
				if w == 64 {
					l, h = lo, hi
				} else {
					l, h = x.cx.Extract(w-1, 0, lo), x.cx.Extract(w-1, 0, hi)
				}
				x.Assume(x.cx.And(x.cx.Cmp("bvsle", l, v), x.cx.Cmp("bvsle", v, h)))
			} else {
				l, h = x.cx.Extract(w-1, 0, lo), x.cx.Extract(w-1, 0, hi)
				x.Assume(x.cx.And(x.cx.Cmp("bvule", l, v), x.cx.Cmp("bvule", v, h)))
			}
			*cell = v
		})
		return nil
	})
	// AddInts(dst, src, skip): dst.f += src.f
	rt("AddInts", func(x *Exec, fr *frame, args []Value) Value {
		t, d := structOf(x, args[0])
		_, s := structOf(x, args[1])
		var cells []*Value
		walkInts(t, s, skipSet(args[2]), "", func(name string, ft types.Type, cell *Value) { cells = append(cells, cell) })
		i := 0
		walkInts(t, d, skipSet(args[2]), "", func(name string, ft types.Type, cell *Value) {
			*cell = x.cx.Bin("bvadd", (*cell).(*Term), (*cells[i]).(*Term))
			i++
		})
		return nil
	})
	// EqInts(a, b, skip) bool
	rt("EqInts", func(x *Exec, fr *frame, args []Value) Value {
		t, a := structOf(x, args[0])
		_, b := structOf(x, args[1])
		var cells []*Value
		walkInts(t, b, skipSet(args[2]), "", func(name string, ft types.Type, cell *Value) { cells = append(cells, cell) })
		r := tTrue
		i := 0
		walkInts(t, a, skipSet(args[2]), "", func(name string, ft types.Type, cell *Value) {
			r = x.cx.And(r, x.cx.Eq((*cell).(*Term), (*cells[i]).(*Term)))
			i++
		})
		return r
	})
}
