package main

// Persistent SMT solver process (z3 -in). One per worker.

import (
	"bufio"
	"fmt"
	"io"
	"os/exec"
	"strconv"
	"strings"
	"time"
)

type SatResult int

const (
	Unsat SatResult = iota
	Sat
	Unknown
)

type Solver struct {
	SlowHook func(d time.Duration, r SatResult)
	cmd     *exec.Cmd
	in      io.WriteCloser
	out     *bufio.Reader
	defined map[int64]bool
	buf     strings.Builder
	// stats
	Queries   int
	SolveTime time.Duration
	Errors    int
	argv      []string
	log       io.Writer
}

func solverArgv(kind string, timeoutMs int) []string {
	switch kind {
	case "z3-new":
		return []string{"z3-new", "-in", fmt.Sprintf("-t:%d", timeoutMs)}
	case "cvc5":
		return []string{"cvc5", "--incremental", "--lang=smt2", "--produce-models", fmt.Sprintf("--tlimit-per=%d", timeoutMs)}
	default:
		return []string{"z3", "-in", fmt.Sprintf("-t:%d", timeoutMs)}
	}
}

func NewSolver(kind string, timeoutMs int) (*Solver, error) {
	s := &Solver{argv: solverArgv(kind, timeoutMs)}
	if err := s.start(); err != nil {
		return nil, err
	}
	return s, nil
}

func (s *Solver) start() error {
	s.cmd = exec.Command(s.argv[0], s.argv[1:]...)
	in, err := s.cmd.StdinPipe()
	if err != nil {
		return err
	}
	out, err := s.cmd.StdoutPipe()
	if err != nil {
		return err
	}
	s.cmd.Stderr = nil
	if err := s.cmd.Start(); err != nil {
		return err
	}
	s.in = in
	s.out = bufio.NewReaderSize(out, 1<<16)
	s.defined = map[int64]bool{}
	if s.argv[0] == "cvc5" {
		s.send("(set-logic ALL)\n")
	}
	return nil
}

func (s *Solver) Close() {
	if s.cmd != nil {
		s.in.Close()
		s.cmd.Process.Kill()
		s.cmd.Wait()
		s.cmd = nil
	}
}

func (s *Solver) send(str string) {
	if s.log != nil {
		io.WriteString(s.log, str)
	}
	io.WriteString(s.in, str)
}

// Reset clears all assertions and definitions (new path).
func (s *Solver) Reset() {
	if s.argv[0] == "cvc5" {
		// cvc5 1.0: reset-assertions keeps declarations; restart is simplest and robust
		s.Close()
		if err := s.start(); err != nil {
			panic(err)
		}
		return
	}
	s.send("(reset)\n")
	s.defined = map[int64]bool{}
}

// ref returns the SMT text naming t, defining sub-terms at the current level as needed.
func (s *Solver) ref(t *Term) string {
	switch t.Op {
	case "const":
		return constStr(t)
	case "var":
		if !s.defined[t.id] {
			s.defined[t.id] = true
			s.send("(declare-const " + t.Name + " " + sortOf(t.W) + ")\n")
		}
		return t.Name
	}
	name := "t" + strconv.FormatInt(t.id, 10)
	if s.defined[t.id] {
		return name
	}
	// iterative post-order to avoid deep recursion on long chains
	type fr struct {
		t *Term
		i int
	}
	stack := []fr{{t, 0}}
	for len(stack) > 0 {
		top := &stack[len(stack)-1]
		if top.i < len(top.t.Args) {
			a := top.t.Args[top.i]
			top.i++
			if a.Op != "const" && !s.defined[a.id] {
				if a.Op == "var" {
					s.ref(a)
				} else {
					stack = append(stack, fr{a, 0})
				}
			}
			continue
		}
		tt := top.t
		stack = stack[:len(stack)-1]
		if s.defined[tt.id] {
			continue
		}
		s.defined[tt.id] = true
		var sb strings.Builder
		sb.WriteString("(define-fun t")
		sb.WriteString(strconv.FormatInt(tt.id, 10))
		sb.WriteString(" () ")
		sb.WriteString(sortOf(tt.W))
		sb.WriteString(" (")
		sb.WriteString(opHead(tt))
		for _, a := range tt.Args {
			sb.WriteByte(' ')
			switch a.Op {
			case "const":
				sb.WriteString(constStr(a))
			case "var":
				sb.WriteString(a.Name)
			default:
				sb.WriteString("t")
				sb.WriteString(strconv.FormatInt(a.id, 10))
			}
		}
		sb.WriteString("))\n")
		s.send(sb.String())
	}
	return name
}

// Assert adds t permanently (until Reset).
func (s *Solver) Assert(t *Term) {
	r := s.ref(t)
	s.send("(assert " + r + ")\n")
}

func (s *Solver) readLine() (string, error) {
	line, err := s.out.ReadString('\n')
	return strings.TrimSpace(line), err
}

// Check: is (asserted ∧ extra...) satisfiable?
func (s *Solver) Check(extra ...*Term) SatResult {
	refs := make([]string, len(extra))
	for i, e := range extra {
		refs[i] = s.ref(e)
	}
	t0 := time.Now()
	if len(extra) > 0 {
		var sb strings.Builder
		sb.WriteString("(push 1)\n")
		for _, r := range refs {
			sb.WriteString("(assert " + r + ")\n")
		}
		sb.WriteString("(check-sat)\n(pop 1)\n(echo \"<<END>>\")\n")
		s.send(sb.String())
	} else {
		s.send("(check-sat)\n(echo \"<<END>>\")\n")
	}
	res, _ := s.readUntilEnd()
	s.Queries++
	s.SolveTime += time.Since(t0)
	if s.SlowHook != nil && time.Since(t0) > 3*time.Second {
		s.SlowHook(time.Since(t0), res)
	}
	return res
}

// readUntilEnd reads solver output up to the echo marker. Any (error line
// makes the result Unknown (inconclusive), whatever else was printed.
func (s *Solver) readUntilEnd() (SatResult, string) {
	res := Unknown
	sawErr := false
	var body strings.Builder
	for {
		line, err := s.out.ReadString('\n')
		if err != nil {
			s.Errors++
			s.Close()
			if e2 := s.start(); e2 != nil {
				panic(e2)
			}
			return Unknown, ""
		}
		tl := strings.TrimSpace(line)
		if strings.Contains(tl, "<<END>>") {
			break
		}
		switch {
		case tl == "sat":
			res = Sat
		case tl == "unsat":
			res = Unsat
		case tl == "unknown" || tl == "timeout":
			res = Unknown
		case strings.HasPrefix(tl, "(error"):
			sawErr = true
			body.WriteString(line)
		default:
			body.WriteString(line)
		}
	}
	if sawErr {
		s.Errors++
		return Unknown, body.String()
	}
	return res, body.String()
}

// CheckModel: like Check, and on Sat also returns values for the given terms.
func (s *Solver) CheckModel(want []*Term, extra ...*Term) (SatResult, []uint64) {
	refs := make([]string, len(extra))
	for i, e := range extra {
		refs[i] = s.ref(e)
	}
	wrefs := make([]string, len(want))
	for i, e := range want {
		wrefs[i] = s.ref(e)
	}
	t0 := time.Now()
	var sb strings.Builder
	sb.WriteString("(push 1)\n")
	for _, r := range refs {
		sb.WriteString("(assert " + r + ")\n")
	}
	sb.WriteString("(check-sat)\n(echo \"<<END>>\")\n")
	s.send(sb.String())
	res, _ := s.readUntilEnd()
	s.Queries++
	var vals []uint64
	if res == Sat && len(want) > 0 {
		vals = make([]uint64, len(want))
		// chunk get-value requests to keep lines moderate
		const chunk = 64
		for off := 0; off < len(want); off += chunk {
			end := off + chunk
			if end > len(want) {
				end = len(want)
			}
			s.send("(get-value (" + strings.Join(wrefs[off:end], " ") + "))\n(echo \"<<END>>\")\n")
			_, txt := s.readUntilEnd()
			vs, ok := parseValues(txt, end-off)
			if !ok {
				s.Errors++
				res = Unknown
				break
			}
			copy(vals[off:end], vs)
		}
	}
	s.send("(pop 1)\n")
	s.SolveTime += time.Since(t0)
	return res, vals
}

// parseValues parses ((name val) (name val) ...) returning n values.
func parseValues(txt string, n int) ([]uint64, bool) {
	if strings.Contains(txt, "(error") {
		return nil, false
	}
	var vals []uint64
	// tokenise
	toks := []string{}
	cur := strings.Builder{}
	flush := func() {
		if cur.Len() > 0 {
			toks = append(toks, cur.String())
			cur.Reset()
		}
	}
	for _, c := range txt {
		switch c {
		case '(', ')':
			flush()
			toks = append(toks, string(c))
		case ' ', '\n', '\t', '\r':
			flush()
		default:
			cur.WriteRune(c)
		}
	}
	flush()
	// expect: ( ( name val ) ( name val ) ... ) ; val may be "(_ bvN w)" form
	i := 0
	if i >= len(toks) || toks[i] != "(" {
		return nil, false
	}
	i++
	for i < len(toks) && toks[i] == "(" {
		i++ // (
		i++ // name
		if i >= len(toks) {
			return nil, false
		}
		var v uint64
		tok := toks[i]
		switch {
		case tok == "true":
			v = 1
		case tok == "false":
			v = 0
		case strings.HasPrefix(tok, "#x"):
			x, err := strconv.ParseUint(tok[2:], 16, 64)
			if err != nil {
				return nil, false
			}
			v = x
		case strings.HasPrefix(tok, "#b"):
			x, err := strconv.ParseUint(tok[2:], 2, 64)
			if err != nil {
				return nil, false
			}
			v = x
		case tok == "(":
			// (_ bv123 32)
			if i+3 < len(toks) && toks[i+1] == "_" && strings.HasPrefix(toks[i+2], "bv") {
				x, err := strconv.ParseUint(toks[i+2][2:], 10, 64)
				if err != nil {
					return nil, false
				}
				v = x
				i += 4 // ( _ bvN w )
			} else {
				return nil, false
			}
		default:
			return nil, false
		}
		vals = append(vals, v)
		i++
		if i >= len(toks) || toks[i] != ")" {
			return nil, false
		}
		i++
	}
	if len(vals) != n {
		return nil, false
	}
	return vals, true
}
