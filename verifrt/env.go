package verifrt

// Environment model: an abstract file system with a symbolic crash point and symbolic
// per-operation failures. The code under test reaches it through textual rewrites of its
// os.* calls (config "rewrite"), identically under the engine and in native replay; the
// model itself is ordinary Go, interpreted by the engine and compiled natively.
//
// Contract assumed of the real thing: rename is atomic (a crash falls between operations,
// never inside one); any mutating operation may fail without effect; after a crash no
// further operation of the dead process takes effect.

import (
	"hash"
	"io"
	"io/fs"
	"path"
	"sort"
	"strconv"
	"strings"
	"time"
)

type FNode struct {
	Data  []byte
	Link  string // symlink target
	Dir   bool
	Mode  uint32
	MTime int64 // seconds
}

type Crashed struct{}

var (
	FS          = map[string]*FNode{}
	FSMutations int  // mutating operations executed so far
	FSCrashAt   = -1 // the process dies instead of executing mutating operation number FSCrashAt (0-based)
	FSDead      bool
	FSFaults    int // how many more operations may fail (each decided by a fresh symbolic flag)
	FSTempSeq   int
	FSLog       []string
	FSClock     int64 = 1_700_000_000
)

var ErrInjected = &injected{}

type injected struct{}

func (*injected) Error() string { return "injected I/O failure" }

func FSReset() {
	FS = map[string]*FNode{}
	FSMutations, FSCrashAt, FSDead, FSFaults, FSTempSeq, FSLog = 0, -1, false, 0, 0, nil
}

func FSPut(p string, data []byte) {
	FS[p] = &FNode{Data: data, Mode: 0o644, MTime: FSClock}
}

func FSExists(p string) bool { _, ok := FS[p]; return ok }

func FSData(p string) []byte {
	if n, ok := FS[p]; ok {
		return n.Data
	}
	return nil
}

// FSList: all paths, sorted.
func FSList() []string {
	var out []string
	for k := range FS {
		out = append(out, k)
	}
	sort.Strings(out)
	return out
}

func pathErr(op, p string, err error) error { return &fs.PathError{Op: op, Path: p, Err: err} }

// mutating: crash point and fault injection for one mutating operation.
// Returns (proceed, err): proceed=false means the operation has no effect.
func mutating(op, p string) (bool, error) {
	if FSDead {
		return false, pathErr(op, p, ErrInjected)
	}
	if FSMutations == FSCrashAt {
		FSDead = true
		FSLog = append(FSLog, "CRASH before "+op+" "+p)
		panic(Crashed{})
	}
	FSMutations++
	if FSFaults > 0 && Bool("fail:"+op) {
		FSFaults--
		FSLog = append(FSLog, "FAIL "+op+" "+p)
		return false, pathErr(op, p, ErrInjected)
	}
	FSLog = append(FSLog, op+" "+p)
	return true, nil
}

// RunToCrash runs f as the process that may die at the crash point; reports whether it died.
func RunToCrash(f func()) (crashed bool) {
	defer func() {
		if r := recover(); r != nil {
			if _, ok := r.(Crashed); ok {
				crashed = true
				return
			}
			panic(r)
		}
	}()
	f()
	return false
}

// ---- os.* replacements

type File struct {
	path   string
	closed bool
	rpos   int
}

func OsOpen(p string) (*File, error) {
	n, ok := FS[p]
	if !ok {
		return nil, pathErr("open", p, fs.ErrNotExist)
	}
	_ = n
	return &File{path: p}, nil
}

func OsCreate(p string) (*File, error) {
	ok, err := mutating("create", p)
	if !ok {
		return nil, err
	}
	FS[p] = &FNode{Mode: 0o644, MTime: FSClock}
	return &File{path: p}, nil
}

func OsCreateTemp(dir, pattern string) (*File, error) {
	FSTempSeq++
	name := pattern + strconv.Itoa(FSTempSeq)
	if i := strings.LastIndex(pattern, "*"); i >= 0 {
		name = pattern[:i] + strconv.Itoa(FSTempSeq) + pattern[i+1:]
	}
	p := path.Join(dir, name)
	ok, err := mutating("createtemp", p)
	if !ok {
		return nil, err
	}
	FS[p] = &FNode{Mode: 0o600, MTime: FSClock}
	return &File{path: p}, nil
}

func (f *File) Name() string { return f.path }

func (f *File) Write(b []byte) (int, error) {
	ok, err := mutating("write", f.path)
	if !ok {
		return 0, err
	}
	n := FS[f.path]
	if n == nil {
		return 0, pathErr("write", f.path, fs.ErrNotExist)
	}
	n.Data = append(append([]byte(nil), n.Data...), b...)
	return len(b), nil
}

func (f *File) Chmod(mode fs.FileMode) error {
	ok, err := mutating("chmod", f.path)
	if !ok {
		return err
	}
	if n := FS[f.path]; n != nil {
		n.Mode = uint32(mode)
	}
	return nil
}

func (f *File) Close() error {
	if f == nil {
		return fs.ErrInvalid
	}
	f.closed = true
	return nil
}

func (f *File) Sync() error { return nil }

func (f *File) Data() []byte { return FSData(f.path) }

func OsReadFile(p string) ([]byte, error) {
	n, ok := FS[p]
	if !ok {
		return nil, pathErr("open", p, fs.ErrNotExist)
	}
	return append([]byte(nil), n.Data...), nil
}

func OsWriteFile(p string, data []byte, perm fs.FileMode) error {
	ok, err := mutating("writefile", p)
	if !ok {
		return err
	}
	FS[p] = &FNode{Data: append([]byte(nil), data...), Mode: uint32(perm), MTime: FSClock}
	return nil
}

func OsRename(oldp, newp string) error {
	ok, err := mutating("rename", oldp)
	if !ok {
		return err
	}
	n, ok := FS[oldp]
	if !ok {
		return pathErr("rename", oldp, fs.ErrNotExist)
	}
	FS[newp] = n
	delete(FS, oldp)
	return nil
}

func OsRemove(p string) error {
	ok, err := mutating("remove", p)
	if !ok {
		return err
	}
	if _, ok := FS[p]; !ok {
		return pathErr("remove", p, fs.ErrNotExist)
	}
	delete(FS, p)
	return nil
}

func OsMkdirAll(p string, perm fs.FileMode) error { return nil }

func OsChtimes(p string, atime, mtime time.Time) error {
	ok, err := mutating("chtimes", p)
	if !ok {
		return err
	}
	n, ok := FS[p]
	if !ok {
		return pathErr("chtimes", p, fs.ErrNotExist)
	}
	n.MTime = mtime.Unix()
	return nil
}

type FileInfo struct {
	name string
	n    *FNode
}

func (i FileInfo) Name() string       { return i.name }
func (i FileInfo) Size() int64        { return int64(len(i.n.Data)) }
func (i FileInfo) Mode() fs.FileMode {
	m := fs.FileMode(i.n.Mode)
	if i.n.Dir {
		m |= fs.ModeDir
	}
	return m
}
func (i FileInfo) ModTime() time.Time { return time.Unix(i.n.MTime, 0) }
func (i FileInfo) IsDir() bool        { return i.n.Dir }
func (i FileInfo) Sys() any           { return nil }

func OsStat(p string) (fs.FileInfo, error) {
	n, ok := FS[p]
	if !ok {
		return nil, pathErr("stat", p, fs.ErrNotExist)
	}
	return FileInfo{name: path.Base(p), n: n}, nil
}

func OsLstat(p string) (fs.FileInfo, error) { return OsStat(p) }

// Glob: filepath.Glob over the model (single directory level patterns).
func Glob(pattern string) ([]string, error) {
	var out []string
	for _, k := range FSList() {
		if ok, err := path.Match(pattern, k); err != nil {
			return nil, err
		} else if ok {
			out = append(out, k)
		}
	}
	return out, nil
}

func (f *File) Stat() (fs.FileInfo, error) { return OsStat(f.path) }

// ---- crypto/sha1 stand-in (engine only; crypto is not interpreted): a deterministic 160-bit
// FNV-style digest. Assumed of the real thing only that distinct inputs give distinct digests
// for the handful of names hashed in a harness. Natively the real sha1 is used.

type fakeSHA1 struct{ data []byte }

func NewSHA1() *fakeSHA1 { return &fakeSHA1{} }

// NewSHA1H has the signature of sha1.New.
func NewSHA1H() hash.Hash { return &fakeSHA1{} }

func (h *fakeSHA1) Write(p []byte) (int, error) { h.data = append(h.data, p...); return len(p), nil }
func (h *fakeSHA1) Sum(b []byte) []byte {
	s := SHA1Sum(h.data)
	return append(b, s[:]...)
}
func (h *fakeSHA1) Reset()         { h.data = nil }
func (h *fakeSHA1) Size() int      { return 20 }
func (h *fakeSHA1) BlockSize() int { return 64 }

func SHA1Sum(data []byte) [20]byte {
	var out [20]byte
	for k := 0; k < 3; k++ {
		h := uint64(14695981039346656037) + uint64(k)*0x9E3779B97F4A7C15
		for _, c := range data {
			h ^= uint64(c)
			h *= 1099511628211
		}
		for i := 0; i < 8 && k*8+i < 20; i++ {
			out[k*8+i] = byte(h >> (8 * uint(i)))
		}
	}
	return out
}

// ---- directories

// FSMkdir registers a directory node.
func FSMkdir(p string) {
	if _, ok := FS[p]; !ok {
		FS[p] = &FNode{Dir: true, Mode: 0o755, MTime: FSClock}
	}
}

// Readdirnames: base names of the entries directly under the directory f (files and directories).
func (f *File) Readdirnames(n int) ([]string, error) {
	prefix := f.path + "/"
	var out []string
	for _, k := range FSList() {
		if strings.HasPrefix(k, prefix) && !strings.Contains(k[len(prefix):], "/") {
			out = append(out, k[len(prefix):])
		}
	}
	return out, nil
}

// OsOpenAny: os.Open for files and directories (a directory exists if registered or non-empty).
func OsOpenAny(p string) (*File, error) {
	if _, ok := FS[p]; ok {
		return &File{path: p}, nil
	}
	prefix := p + "/"
	for k := range FS {
		if strings.HasPrefix(k, prefix) {
			return &File{path: p}, nil
		}
	}
	return nil, pathErr("open", p, fs.ErrNotExist)
}

func OsMkdirAllReal(p string, perm fs.FileMode) error {
	ok, err := mutating("mkdir", p)
	if !ok {
		return err
	}
	FSMkdir(p)
	return nil
}

// ---- os.ReadDir

type DirEntry struct {
	name string
	n    *FNode
}

func (e DirEntry) Name() string               { return e.name }
func (e DirEntry) IsDir() bool                { return e.n != nil && e.n.Dir }
func (e DirEntry) Type() fs.FileMode          { return 0 }
func (e DirEntry) Info() (fs.FileInfo, error) { return FileInfo{name: e.name, n: e.n}, nil }

// OsReadDir: entries directly under dir, sorted by name; a missing directory is fs.ErrNotExist.
func OsReadDir(dir string) ([]fs.DirEntry, error) {
	f, err := OsOpenAny(dir)
	if err != nil {
		return nil, err
	}
	names, _ := f.Readdirnames(-1)
	var out []fs.DirEntry
	for _, n := range names {
		out = append(out, DirEntry{name: n, n: FS[dir+"/"+n]})
	}
	return out, nil
}

// ---- symlinks, reading, filepath.Walk

func FSPutSymlink(p, target string) {
	FS[p] = &FNode{Link: target, Mode: uint32(fs.ModeSymlink | 0o777), MTime: FSClock}
}

func OsReadlink(p string) (string, error) {
	n, ok := FS[p]
	if !ok || n.Mode&uint32(fs.ModeSymlink) == 0 {
		return "", pathErr("readlink", p, fs.ErrInvalid)
	}
	return n.Link, nil
}

func (f *File) Read(b []byte) (int, error) {
	n := FS[f.path]
	if n == nil {
		return 0, pathErr("read", f.path, fs.ErrNotExist)
	}
	if f.rpos >= len(n.Data) {
		return 0, io.EOF
	}
	k := copy(b, n.Data[f.rpos:])
	f.rpos += k
	return k, nil
}

// SkipDir is filepath.SkipDir (the rewritten caller keeps using its own filepath.SkipDir value).
var SkipDir = fs.SkipDir

// Walk: filepath.Walk over the model, lexical order, with filepath.Walk's SkipDir rules: returned
// for a directory its contents are skipped; returned for a non-directory the remaining entries of
// the containing directory are skipped.
func Walk(root string, fn func(path string, info fs.FileInfo, err error) error) error {
	info, err := OsLstat(root)
	if err != nil {
		err = fn(root, nil, err)
	} else {
		err = walk(root, info, fn)
	}
	if err == fs.SkipDir || err == fs.SkipAll {
		return nil
	}
	return err
}

func walk(p string, info fs.FileInfo, fn func(path string, info fs.FileInfo, err error) error) error {
	if !info.IsDir() {
		return fn(p, info, nil)
	}
	f, _ := OsOpenAny(p)
	names, _ := f.Readdirnames(-1)
	err1 := fn(p, info, nil)
	if err1 != nil {
		return err1 // SkipDir on a directory: the caller skips it
	}
	for _, name := range names {
		child := p + "/" + name
		ci, err := OsLstat(child)
		if err != nil {
			if err := fn(child, ci, err); err != nil && err != fs.SkipDir {
				return err
			}
			continue
		}
		err = walk(child, ci, fn)
		if err != nil {
			if !ci.IsDir() || err != fs.SkipDir {
				return err
			}
		}
	}
	return nil
}
