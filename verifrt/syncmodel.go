package verifrt

// Models of golang.org/x/sync/semaphore.Weighted, time.Timer and a cancellable context for the
// engine's cooperative thread model (reached through source rewrites). Contracts assumed:
// a weighted semaphore admits a request only while the sum of held weights stays within its
// size, blocks otherwise, and gives up (only) when the context is done - "if ctx is already
// done, Acquire may still succeed without blocking"; Release of more than is held panics; a
// timer fires at most once, at an arbitrary moment, unless stopped first.

import (
	"context"
	"time"
)

type Weighted struct {
	Size, Cur int64
}

func NewWeighted(n int64) *Weighted { return &Weighted{Size: n} }

func (s *Weighted) Acquire(ctx context.Context, n int64) error {
	WaitUntil(func() bool { return s.Cur+n <= s.Size || ctx.Err() != nil })
	if s.Cur+n <= s.Size {
		if ctx.Err() != nil && Bool("semaphore: gives up although capacity is free (context already done)") {
			return ctx.Err()
		}
		s.Cur += n
		return nil
	}
	return ctx.Err()
}

func (s *Weighted) TryAcquire(n int64) bool {
	if s.Cur+n <= s.Size {
		s.Cur += n
		return true
	}
	return false
}

func (s *Weighted) Release(n int64) {
	s.Cur -= n
	if s.Cur < 0 {
		panic("semaphore: released more than held")
	}
}

type Timer struct {
	C              chan time.Time
	Fired, Stopped bool
}

var Timers []*Timer

func NewTimer(d time.Duration) *Timer {
	t := &Timer{C: make(chan time.Time, 1)}
	Timers = append(Timers, t)
	return t
}

func (t *Timer) Stop() bool {
	was := !t.Fired && !t.Stopped
	t.Stopped = true
	return was
}

// Fire: the timer expires now (no effect if it was stopped or has fired).
func (t *Timer) Fire() {
	if !t.Fired && !t.Stopped {
		t.Fired = true
		t.C <- time.Time{}
	}
}

// TestCtx: a context cancelled by an explicit Cancel (plain state, no locks: safe to read from
// scheduling predicates).
type TestCtx struct {
	Cancelled bool
	done      chan struct{}
}

func NewTestCtx() *TestCtx { return &TestCtx{done: make(chan struct{})} }

func (c *TestCtx) Cancel() {
	if !c.Cancelled {
		c.Cancelled = true
		close(c.done)
	}
}
func (c *TestCtx) Deadline() (time.Time, bool) { return time.Time{}, false }
func (c *TestCtx) Done() <-chan struct{}       { return c.done }
func (c *TestCtx) Err() error {
	if c.Cancelled {
		return context.Canceled
	}
	return nil
}
func (c *TestCtx) Value(key any) any { return nil }
