package verifrt

import (
	"fmt"
	"reflect"
)

// flatten mirrors the engine's flattenObs so observations can be compared textually.
func flatten(label string, v any) {
	if v == nil {
		Observed = append(Observed, label+".nil=1")
		return
	}
	flattenV(label, reflect.ValueOf(v), true)
}

func flattenV(label string, rv reflect.Value, top bool) {
	switch rv.Kind() {
	case reflect.Bool:
		n := 0
		if rv.Bool() {
			n = 1
		}
		Observed = append(Observed, fmt.Sprintf("%s=%d", label, n))
	case reflect.Int, reflect.Int8, reflect.Int16, reflect.Int32, reflect.Int64:
		bits := rv.Type().Bits()
		u := uint64(rv.Int())
		if bits < 64 {
			u &= (1 << uint(bits)) - 1
		}
		Observed = append(Observed, fmt.Sprintf("%s=%d", label, u))
	case reflect.Uint, reflect.Uint8, reflect.Uint16, reflect.Uint32, reflect.Uint64, reflect.Uintptr:
		Observed = append(Observed, fmt.Sprintf("%s=%d", label, rv.Uint()))
	case reflect.String:
		s := rv.String()
		Observed = append(Observed, fmt.Sprintf("%s.len=%d", label, len(s)))
		for i := 0; i < len(s); i++ {
			Observed = append(Observed, fmt.Sprintf("%s[%d]=%d", label, i, s[i]))
		}
	case reflect.Slice:
		Observed = append(Observed, fmt.Sprintf("%s.len=%d", label, rv.Len()))
		for i := 0; i < rv.Len(); i++ {
			flattenV(fmt.Sprintf("%s[%d]", label, i), rv.Index(i), false)
		}
	case reflect.Array:
		for i := 0; i < rv.Len(); i++ {
			flattenV(fmt.Sprintf("%s[%d]", label, i), rv.Index(i), false)
		}
	case reflect.Struct:
		for i := 0; i < rv.NumField(); i++ {
			f := rv.Field(i)
			flattenV(fmt.Sprintf("%s.%d", label, i), f, false)
		}
	case reflect.Interface:
		if rv.IsNil() {
			Observed = append(Observed, label+".nil=1")
		} else {
			Observed = append(Observed, label+".nil=0")
			flattenV(label+".v", rv.Elem(), false)
		}
	case reflect.Ptr:
		if rv.IsNil() {
			Observed = append(Observed, label+".nil=1")
		} else {
			Observed = append(Observed, label+".nil=0")
		}
	}
}
