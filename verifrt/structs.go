package verifrt

import (
	"reflect"
	"strings"
)

func skipSet(s string) map[string]bool {
	m := map[string]bool{}
	for _, n := range strings.Split(s, ",") {
		if n != "" {
			m[n] = true
		}
	}
	return m
}

func walkInts(v reflect.Value, skip map[string]bool, f func(fv reflect.Value)) {
	t := v.Type()
	for i := 0; i < t.NumField(); i++ {
		if skip[t.Field(i).Name] {
			continue
		}
		fv := v.Field(i)
		switch fv.Kind() {
		case reflect.Int, reflect.Int8, reflect.Int16, reflect.Int32, reflect.Int64,
			reflect.Uint, reflect.Uint8, reflect.Uint16, reflect.Uint32, reflect.Uint64, reflect.Uintptr:
			f(fv)
		case reflect.Struct:
			walkInts(fv, skip, f)
		}
	}
}

// FillInts sets every integer field of *ptr (recursing into nested structs, skipping the
// comma-separated field names in skip) to a nondeterministic value in [lo,hi].
func FillInts(ptr any, name string, lo, hi int, skip string) {
	walkInts(reflect.ValueOf(ptr).Elem(), skipSet(skip), func(fv reflect.Value) {
		raw := next()
		switch fv.Kind() {
		case reflect.Int, reflect.Int8, reflect.Int16, reflect.Int32, reflect.Int64:
			bits := fv.Type().Bits()
			x := int64(raw)
			if bits < 64 {
				x = int64(raw<<(64-uint(bits))) >> (64 - uint(bits))
			}
			if x < int64(lo) || x > int64(hi) {
				panic(AssumeFailed{})
			}
			fv.SetInt(x)
		default:
			if raw < uint64(lo) || raw > uint64(hi) {
				panic(AssumeFailed{})
			}
			fv.SetUint(raw)
		}
	})
}

// AddInts: dst.f += src.f for every integer field.
func AddInts(dst, src any, skip string) {
	var vals []reflect.Value
	walkInts(reflect.ValueOf(src).Elem(), skipSet(skip), func(fv reflect.Value) { vals = append(vals, fv) })
	i := 0
	walkInts(reflect.ValueOf(dst).Elem(), skipSet(skip), func(fv reflect.Value) {
		switch fv.Kind() {
		case reflect.Int, reflect.Int8, reflect.Int16, reflect.Int32, reflect.Int64:
			fv.SetInt(fv.Int() + vals[i].Int())
		default:
			fv.SetUint(fv.Uint() + vals[i].Uint())
		}
		i++
	})
}

// EqInts: all integer fields equal.
func EqInts(a, b any, skip string) bool {
	var vals []reflect.Value
	walkInts(reflect.ValueOf(b).Elem(), skipSet(skip), func(fv reflect.Value) { vals = append(vals, fv) })
	i := 0
	eq := true
	walkInts(reflect.ValueOf(a).Elem(), skipSet(skip), func(fv reflect.Value) {
		switch fv.Kind() {
		case reflect.Int, reflect.Int8, reflect.Int16, reflect.Int32, reflect.Int64:
			eq = eq && fv.Int() == vals[i].Int()
		default:
			eq = eq && fv.Uint() == vals[i].Uint()
		}
		i++
	})
	return eq
}
