// Package verifrt is the harness runtime. Under the gosym engine every function
// below that produces or constrains nondeterministic input is intercepted as an
// intrinsic (bodies ignored). Compiled natively (replay / conformance), the same
// functions read the concrete input vector chosen by the solver.
package verifrt

import (
	"encoding/json"
	"fmt"
	"os"
	"runtime"
	"time"
)

// ---- native replay state

type AssumeFailed struct{}
type AssertFailed struct{ Label string }

var (
	vector   []uint64
	vpos     int
	Observed []string
	Reached  []string
	Native   = true
)

// LoadVector sets the input vector for a native run.
func LoadVector(v []uint64) {
	vector = v
	vpos = 0
	Observed = nil
	Reached = nil
	Debugged = nil
}

func LoadVectorFile(path string) error {
	b, err := os.ReadFile(path)
	if err != nil {
		return err
	}
	var v []uint64
	if err := json.Unmarshal(b, &v); err != nil {
		return err
	}
	LoadVector(v)
	return nil
}

func next() uint64 {
	if vpos >= len(vector) {
		vpos++
		return 0
	}
	v := vector[vpos]
	vpos++
	return v
}

func Bool(name string) bool    { return next() == 1 }
func U8(name string) uint8     { return uint8(next()) }
func U16(name string) uint16   { return uint16(next()) }
func U32(name string) uint32   { return uint32(next()) }
func U64(name string) uint64   { return next() }
func I32(name string) int32    { return int32(uint32(next())) }
func I64(name string) int64    { return int64(next()) }
func Int(name string) int      { return int(next()) }
func Rune(name string) rune    { return rune(uint32(next())) }

func IntRange(name string, lo, hi int) int {
	v := int(next())
	if v < lo || v > hi {
		panic(AssumeFailed{})
	}
	return v
}

func Bytes(name string, n int) []byte {
	b := make([]byte, n)
	for i := range b {
		b[i] = byte(next())
	}
	return b
}

func String(name string, n int) string { return string(Bytes(name, n)) }

func Assume(c bool) {
	if !c {
		panic(AssumeFailed{})
	}
}

func Assert(c bool, label string) {
	if !c {
		panic(AssertFailed{label})
	}
}

func Reach(label string) { Reached = append(Reached, label) }

// Observe records a value for engine/native conformance checking.
func Observe(label string, v any) {
	flatten(label, v)
}

// Debug records free text for a native replay (printed by bin/replay); ignored by the engine and
// never compared.
func Debug(label, text string) { Debugged = append(Debugged, label+": "+text) }

var Debugged []string

func And(a, b bool) bool     { return a && b }
func Or(a, b bool) bool      { return a || b }
func Implies(a, b bool) bool { return !a || b }
func B2I(b bool) int {
	if b {
		return 1
	}
	return 0
}
func IteInt(c bool, a, b int) int {
	if c {
		return a
	}
	return b
}
func IteU8(c bool, a, b uint8) uint8 {
	if c {
		return a
	}
	return b
}
func IteU32(c bool, a, b uint32) uint32 {
	if c {
		return a
	}
	return b
}

// MapOrderNondet: under the engine, map iteration order of small maps becomes a
// nondeterministic choice. Natively the runtime's own order is used.
func MapOrderNondet(on bool) {}

// AllocBound: under the engine every make() size must be provably <= n (elements).
// Natively the bytes allocated between AllocBound and AllocCheck are measured; more than
// 100 KiB for the few input bytes of a harness counts as the same violation.
func AllocBound(n int) {
	var ms runtime.MemStats
	runtime.ReadMemStats(&ms)
	allocStart, allocOn = ms.TotalAlloc, true
}

func AllocCheck() {
	if !allocOn {
		return
	}
	allocOn = false
	var ms runtime.MemStats
	runtime.ReadMemStats(&ms)
	if ms.TotalAlloc-allocStart > 100<<10 {
		panic(AssertFailed{"alloc-bound"})
	}
}

var (
	allocStart uint64
	allocOn    bool
)

// LoopBudget: under the engine, a loop in the code under test that makes more than k
// symbolic iterations in one activation, or more than `steps` interpreter steps in total,
// is a violation (label "loop-budget"). Natively a watchdog turns a hang or runaway
// allocation into the same outcome: the test binary prints the marker and exits.
func LoopBudget(k int, steps int) {
	watchGen++
	gen := watchGen
	go func() {
		t0 := time.Now()
		for {
			time.Sleep(50 * time.Millisecond)
			if watchGen != gen {
				return
			}
			var ms runtime.MemStats
			runtime.ReadMemStats(&ms)
			if time.Since(t0) > 8*time.Second || ms.HeapAlloc > 1<<30 {
				if WatchdogFired != nil {
					WatchdogFired()
				}
				os.Exit(3)
			}
		}
	}()
}

func LoopBudgetEnd() { watchGen++ }

var (
	watchGen      int
	WatchdogFired func()
)

func Concretize(v int) int { return v }

// Param picks a bound by tier (VERIF_TIER=thorough selects the second value).
func Param(name string, quick, thorough int) int {
	if os.Getenv("VERIF_TIER") == "thorough" {
		return thorough
	}
	return quick
}
func IsSymbolic() bool      { return false }

func Unsupported(msg string) { panic("verifrt.Unsupported: " + msg) }

func Sprintf(format string, args ...any) string { return fmt.Sprintf(format, args...) }

// EnableThreads / Go / Yield: thread model hooks (engine); natively Go runs f inline.
func EnableThreads(maxSched int) {}
func Go(f func())               { f() }
func Yield()                    {}

// WaitUntil blocks the calling thread (engine thread model) until pred holds; natively it must hold.
func WaitUntil(pred func() bool) {
	if !pred() {
		panic("verifrt.WaitUntil: would block in a sequential native run")
	}
}

// ---- error values produced by the engine

// RuntimeError is what the engine raises for Go runtime panics (bounds, nil, ...).
type RuntimeError struct{ Msg string }

func (e *RuntimeError) Error() string { return e.Msg }
func (e *RuntimeError) RuntimeError() {}

// FmtError is what fmt.Errorf returns under the engine.
type FmtError struct {
	Msg     string
	Wrapped error
}

func (e *FmtError) Error() string { return e.Msg }
func (e *FmtError) Unwrap() error { return e.Wrapped }

// ClockStrict: under the engine successive time.Now() values are strictly increasing
// (as a nanosecond clock practically is) instead of merely non-decreasing.
func ClockStrict() {}

// ClockConcrete: under the engine time.Now() returns fixed concrete instants 1 ms apart
// (for code whose results do not depend on the clock; durations only feed statistics).
func ClockConcrete() {}

// PreemptionBound: under the engine's thread model at most k context switches away from a thread
// that could have continued are explored per path (switches at blocking points and thread exits
// are free). 0 = unbounded; a negative k = no preemption at all.
func PreemptionBound(k int) {}

// CanonicalSchedule: under the engine's thread model only ONE schedule of the threads is explored
// (no preemption; at every blocking point or thread exit the lowest-numbered enabled thread runs),
// while every ready case of a select is still a choice. For harnesses whose subject is the data
// flow through concurrent plumbing, not its interleavings; stated in the harness's claim.
func CanonicalSchedule() {}
