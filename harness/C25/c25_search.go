//go:build verif

package search

import (
	"context"

	"github.com/sourcegraph/zoekt"
	"github.com/sourcegraph/zoekt/query"
	verifrt "github.com/sourcegraph/zoekt/zz_verifrt"
)

type c25Recorder struct {
	events []*zoekt.SearchResult
	files  [][]string
	stats  []zoekt.Stats
	urls   []map[string]string
}

func (r *c25Recorder) Send(e *zoekt.SearchResult) {
	var names []string
	for _, f := range e.Files {
		names = append(names, f.Repository+"/"+f.FileName)
	}
	r.events = append(r.events, e)
	r.files = append(r.files, names)
	r.stats = append(r.stats, e.Stats)
	u := map[string]string{}
	for k, v := range e.RepoURLs {
		u[k] = v
	}
	r.urls = append(r.urls, u)
}

// H_C25_byRepository: sendByRepository splits one shard result into one event per repository: every
// file is delivered exactly once, files of one repository stay together and in the result's order
// up to the per-batch ranking, the statistics of the result are delivered exactly once in total, and
// each event's URL map names only repositories of its own files.
func H_C25_byRepository() {
	res := &zoekt.SearchResult{RepoURLs: map[string]string{}, LineFragments: map[string]string{}}
	verifrt.FillInts(&res.Stats, "stats", 0, 1000, "")
	nrepos := verifrt.Concretize(verifrt.IntRange("repos", 0, 3))
	want := map[string]bool{}
	hasSub := map[string]bool{}
	for r := 0; r < nrepos; r++ {
		name := "r" + string(rune('1'+r))
		res.RepoURLs[name] = "https://h/" + name
		res.LineFragments[name] = "#L"
		nf := verifrt.Concretize(verifrt.IntRange("files", 0, 2))
		for k := 0; k < nf; k++ {
			fn := "f" + string(rune('a'+k))
			fm := zoekt.FileMatch{Repository: name, RepositoryID: uint32(r + 1), FileName: fn, Score: float64(10 - k), RepositoryPriority: float64(r)}
			if k == 0 && verifrt.Bool("subRepository") {
				// a file of a sub-repository: its URL entry must travel with the file
				fm.SubRepositoryName = name + "s"
				res.RepoURLs[name+"s"] = "https://h/" + name + "s"
				res.LineFragments[name+"s"] = "#L"
				hasSub[name] = true
			}
			res.Files = append(res.Files, fm)
			want[name+"/"+fn] = true
		}
	}
	produced := res.Stats
	rec := &c25Recorder{}
	sendByRepository(res, &zoekt.SearchOptions{}, rec)
	verifrt.Observe("events", len(rec.events))
	var total zoekt.Stats
	seen := map[string]bool{}
	for i := range rec.events {
		st := rec.stats[i]
		verifrt.AddInts(&total, &st, "")
		repoOfEvent := ""
		for _, f := range rec.files[i] {
			verifrt.Assert(want[f] && !seen[f], "every file is delivered exactly once")
			seen[f] = true
			repo := f[:2]
			if len(rec.events) > 1 {
				verifrt.Assert(repoOfEvent == "" || repoOfEvent == repo, "when a result is split, an event carries files of one repository only")
			}
			repoOfEvent = repo
		}
		if len(rec.events) > 1 {
			for name := range rec.urls[i] {
				verifrt.Assert(name == repoOfEvent || name == repoOfEvent+"s", "a split event's URL map names only its own repository and sub-repositories")
			}
			_, own := rec.urls[i][repoOfEvent]
			_, sub := rec.urls[i][repoOfEvent+"s"]
			verifrt.Assert(own && (sub || !hasSub[repoOfEvent]), "a split event carries the URL of its repository and of its files' sub-repositories")
		}
	}
	verifrt.Assert(len(seen) == len(want), "no file is lost")
	verifrt.Assert(verifrt.EqInts(&total, &produced, "Duration,FlushReason"), "the statistics of a shard result are delivered exactly once in total")
	verifrt.Reach("returned")
}

// H_C25_flushCollect: newFlushCollectSender (collect and rank until the flush timer fires, then pass
// events through) with the timer firing at an arbitrary moment between, during or after the sends
// (a clock thread on the thread model; the timer is the model in verifrt/syncmodel.go) and a final
// flush at the end. 2 (quick) / 3 (thorough) events with symbolic statistics and 0..2 files each.
// For every interleaving: the statistics delivered downstream sum to the statistics produced, and
// without a display limit every file is delivered exactly once; with a display limit of one document
// no file is delivered twice and none is invented. Nothing is left in the collector after the final
// flush (a second final flush sends nothing).
func H_C25_flushCollect() {
	verifrt.ClockConcrete()
	verifrt.EnableThreads(verifrt.Param("sched", 60, 90))
	verifrt.PreemptionBound(verifrt.Param("preemptions", 2, 2))
	opts := &zoekt.SearchOptions{FlushWallTime: 1}
	limited := verifrt.Bool("displayLimit")
	if limited {
		opts.MaxDocDisplayCount = 1
	}
	rec := &c25Recorder{}
	sender, flush := newFlushCollectSender(opts, rec)
	verifrt.Go(func() {
		verifrt.Yield()
		for _, t := range verifrt.Timers {
			t.Fire()
		}
	})
	n := verifrt.Param("events", 2, 3)
	var produced zoekt.Stats
	want := map[string]bool{}
	for i := 0; i < n; i++ {
		ev := &zoekt.SearchResult{RepoURLs: map[string]string{}, LineFragments: map[string]string{}}
		verifrt.FillInts(&ev.Stats, "stats", 0, 1000, "")
		verifrt.AddInts(&produced, &ev.Stats, "")
		nf := verifrt.Concretize(verifrt.IntRange("files", 0, 2))
		repo := "r" + string(rune('1'+i))
		for k := 0; k < nf; k++ {
			fn := "f" + string(rune('a'+k))
			ev.Files = append(ev.Files, zoekt.FileMatch{Repository: repo, FileName: fn, Score: float64(k + i)})
			want[repo+"/"+fn] = true
		}
		if nf > 0 {
			ev.RepoURLs[repo] = "u"
		}
		sender.Send(ev)
	}
	flush()
	before := len(rec.events)
	flush()
	verifrt.Assert(len(rec.events) == before, "a second final flush sends nothing")
	var total zoekt.Stats
	seen := map[string]bool{}
	for i := range rec.events {
		st := rec.stats[i]
		verifrt.AddInts(&total, &st, "")
		for _, f := range rec.files[i] {
			verifrt.Assert(want[f], "no file is invented")
			verifrt.Assert(!seen[f], "no file is delivered twice")
			seen[f] = true
		}
	}
	if !limited {
		verifrt.Assert(len(seen) == len(want), "without a display limit every file is delivered")
	}
	verifrt.Assert(verifrt.EqInts(&total, &produced, "Duration,FlushReason"), "collecting and flushing conserves every statistics counter")
	verifrt.Observe("events", len(rec.events))
	verifrt.Reach("returned")
}

// ---- the whole streaming stack: shardedSearcher.StreamSearch and Search over fake shards

type c25Shard struct {
	name  string
	files int
	base  float64
	stats zoekt.Stats
	calls int
}

var c25SearchCalls int

func (s *c25Shard) Search(ctx context.Context, q query.Q, opts *zoekt.SearchOptions) (*zoekt.SearchResult, error) {
	s.calls++
	c25SearchCalls++
	res := &zoekt.SearchResult{RepoURLs: map[string]string{s.name: "u"}, LineFragments: map[string]string{s.name: "l"}}
	for k := 0; k < s.files; k++ {
		res.Files = append(res.Files, zoekt.FileMatch{Repository: s.name, RepositoryID: uint32(s.name[1] - '0'), FileName: "f" + string(rune('a'+k)) + ".go", Score: s.base - float64(k),
			LineMatches: []zoekt.LineMatch{{Line: []byte("x"), LineNumber: 1, LineFragments: []zoekt.LineFragmentMatch{{MatchLength: 1}}}, {Line: []byte("y"), LineNumber: 2, LineFragments: []zoekt.LineFragmentMatch{{MatchLength: 1}}}}})
	}
	res.Stats = s.stats
	res.Stats.MatchCount = 2 * s.files
	return res, nil
}
func (s *c25Shard) List(ctx context.Context, q query.Q, opts *zoekt.ListOptions) (*zoekt.RepoList, error) {
	return &zoekt.RepoList{}, nil
}
func (s *c25Shard) Close()         {}
func (s *c25Shard) String() string { return s.name }

type c25Sched struct{}

func (c25Sched) Acquire(ctx context.Context) (*process, error) {
	return &process{releaseFunc: func() {}}, nil
}

// H_C25_stack: shardedSearcher.StreamSearch with everything it stacks on the caller's sender
// (initial statistics event, copyFileSender, limitSender with its cancellation, the flush-collect
// sender with a modelled timer, streamSearch, sendByRepository) over two fake shards - the first
// (searched first) with the lower scores - of 0-2 / 1-2 files with two line matches each and
// symbolic statistics; document display limit 0-2, total match limit 0-2, flush collection off, or
// on with the timer firing after 0, 1 or 2 shard searches or never; the searcher still loading.
// One canonical thread schedule (see verifrt.CanonicalSchedule) with every select choice; thorough:
// up to three files per shard and limits up to 3.
// No file is delivered twice or invented; at most the display limit is delivered, without limits
// every file; without a display limit every delivered file is whole (both line matches); when
// everything was collected before the flush the delivered files are the best-scored ones; every
// statistics counter summed over the delivered events equals the sum over the searched shards
// (plus one crash while loading).
func H_C25_stack() { c25Stack(true) }

// H_C25_stackSearch: the same through the non-streaming shardedSearcher.Search (collectSender).
func H_C25_stackSearch() { c25Stack(false) }

func c25Stack(streaming bool) {
	verifrt.ClockConcrete()
	verifrt.EnableThreads(400)
	verifrt.CanonicalSchedule()
	var fakes []*c25Shard
	var ranked []*rankedShard
	want := map[string]float64{}
	for i := 0; i < 2; i++ {
		f := &c25Shard{name: "r" + string(rune('1'+i)), files: verifrt.Concretize(verifrt.IntRange("files", i, verifrt.Param("maxFiles", 2, 3))), base: float64(3 + 7*i)}
		verifrt.FillInts(&f.stats, "stats", 0, 1000, "MatchCount")
		for k := 0; k < f.files; k++ {
			want[f.name+"/f"+string(rune('a'+k))+".go"] = f.base - float64(k)
		}
		fakes = append(fakes, f)
		ranked = append(ranked, &rankedShard{Searcher: f, priority: float64(2 - i)})
	}
	ss := &shardedSearcher{sched: c25Sched{}}
	ss.ranked.Store(ranked)
	limit := verifrt.Concretize(verifrt.IntRange("maxDocDisplayCount", 0, verifrt.Param("maxLimit", 2, 3)))
	total := verifrt.Concretize(verifrt.IntRange("totalMaxMatchCount", 0, verifrt.Param("maxLimit", 2, 3)))
	opts := &zoekt.SearchOptions{MaxDocDisplayCount: limit, TotalMaxMatchCount: total}
	finished, clockRunning := false, false
	fireAfter := -1 // no flush collection
	if streaming && verifrt.Bool("flushCollect") {
		opts.FlushWallTime = 1
		fireAfter = verifrt.Concretize(verifrt.IntRange("timerFiresAfterSearches", 0, 3)) // 3 = never
		if fireAfter < 3 {
			clockRunning = true
			verifrt.Go(func() {
				verifrt.WaitUntil(func() bool { return finished || (c25SearchCalls >= fireAfter && len(verifrt.Timers) > 0) })
				for _, t := range verifrt.Timers {
					t.Fire()
				}
				clockRunning = false
			})
		}
	}
	rec := &c25Recorder{}
	if streaming {
		err := ss.StreamSearch(context.Background(), &query.Substring{Pattern: "needle"}, opts, rec)
		verifrt.Assert(err == nil, "StreamSearch succeeds")
	} else {
		res, err := ss.Search(context.Background(), &query.Substring{Pattern: "needle"}, opts)
		verifrt.Assert(err == nil && res != nil, "Search succeeds")
		if res != nil {
			rec.Send(res)
		}
	}
	finished = true
	verifrt.WaitUntil(func() bool { return !clockRunning })
	var sum, produced zoekt.Stats
	seen := map[string]bool{}
	delivered := 0
	worstDelivered := 1000.0
	for i := range rec.events {
		st := rec.stats[i]
		verifrt.AddInts(&sum, &st, "")
		for k, f := range rec.files[i] {
			sc, ok := want[f]
			verifrt.Assert(ok, "no file is invented")
			verifrt.Assert(!seen[f], "no file is delivered twice")
			seen[f] = true
			delivered++
			if sc < worstDelivered {
				worstDelivered = sc
			}
			if limit == 0 {
				verifrt.Assert(len(rec.events[i].Files[k].LineMatches) == 2, "without a display limit every delivered file is whole")
			}
		}
	}
	searched := 0
	for _, f := range fakes {
		verifrt.Assert(f.calls <= 1, "a shard is searched at most once")
		if f.calls == 1 {
			searched++
			st := f.stats
			st.MatchCount = 2 * f.files
			verifrt.AddInts(&produced, &st, "")
		}
	}
	produced.Crashes++ // still loading
	if limit == 0 && total == 0 {
		verifrt.Assert(searched == 2 && delivered == len(want), "without limits every shard is searched and every file delivered")
	}
	if limit > 0 {
		verifrt.Assert(delivered <= limit, "at most the document display limit is delivered")
		if searched == 2 && (!streaming || fireAfter == 3) {
			// everything was ranked together before the cut: the delivered files are the best ones
			n := limit
			if len(want) < n {
				n = len(want)
			}
			verifrt.Assert(delivered == n, "the display limit is filled when there are enough files")
			better := 0
			for _, sc := range want {
				if sc > worstDelivered {
					better++
				}
			}
			verifrt.Assert(better < n || delivered == 0, "when all results were collected before the cut, the delivered files are the best-ranked ones")
		}
	}
	verifrt.Assert(verifrt.EqInts(&sum, &produced, "Duration,Wait,FlushReason"), "every statistics counter summed over the delivered events equals the sum over the searched shards (plus one crash while loading)")
	verifrt.Observe("events", len(rec.events))
	verifrt.Reach("returned")
}

// metrics are outside the property (and convert the symbolic counters to float64)
func c25NoMetrics(sr *zoekt.SearchResult) {}
