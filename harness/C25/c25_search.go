//go:build verif

package search

import (
	"github.com/sourcegraph/zoekt"
	verifrt "github.com/sourcegraph/zoekt/zz_verifrt"
)

type c25Recorder struct {
	events []*zoekt.SearchResult
	files  [][]string
	stats  []zoekt.Stats
	urls   []map[string]string
}

func (r *c25Recorder) Send(e *zoekt.SearchResult) {
	var names []string
	for _, f := range e.Files {
		names = append(names, f.Repository+"/"+f.FileName)
	}
	r.events = append(r.events, e)
	r.files = append(r.files, names)
	r.stats = append(r.stats, e.Stats)
	u := map[string]string{}
	for k, v := range e.RepoURLs {
		u[k] = v
	}
	r.urls = append(r.urls, u)
}

// H_C25_byRepository: sendByRepository splits one shard result into one event per repository: every
// file is delivered exactly once, files of one repository stay together and in the result's order
// up to the per-batch ranking, the statistics of the result are delivered exactly once in total, and
// each event's URL map names only repositories of its own files.
func H_C25_byRepository() {
	res := &zoekt.SearchResult{RepoURLs: map[string]string{}, LineFragments: map[string]string{}}
	verifrt.FillInts(&res.Stats, "stats", 0, 1000, "")
	nrepos := verifrt.Concretize(verifrt.IntRange("repos", 0, 3))
	want := map[string]bool{}
	hasSub := map[string]bool{}
	for r := 0; r < nrepos; r++ {
		name := "r" + string(rune('1'+r))
		res.RepoURLs[name] = "https://h/" + name
		res.LineFragments[name] = "#L"
		nf := verifrt.Concretize(verifrt.IntRange("files", 0, 2))
		for k := 0; k < nf; k++ {
			fn := "f" + string(rune('a'+k))
			fm := zoekt.FileMatch{Repository: name, RepositoryID: uint32(r + 1), FileName: fn, Score: float64(10 - k), RepositoryPriority: float64(r)}
			if k == 0 && verifrt.Bool("subRepository") {
				// a file of a sub-repository: its URL entry must travel with the file
				fm.SubRepositoryName = name + "s"
				res.RepoURLs[name+"s"] = "https://h/" + name + "s"
				res.LineFragments[name+"s"] = "#L"
				hasSub[name] = true
			}
			res.Files = append(res.Files, fm)
			want[name+"/"+fn] = true
		}
	}
	produced := res.Stats
	rec := &c25Recorder{}
	sendByRepository(res, &zoekt.SearchOptions{}, rec)
	verifrt.Observe("events", len(rec.events))
	var total zoekt.Stats
	seen := map[string]bool{}
	for i := range rec.events {
		st := rec.stats[i]
		verifrt.AddInts(&total, &st, "")
		repoOfEvent := ""
		for _, f := range rec.files[i] {
			verifrt.Assert(want[f] && !seen[f], "every file is delivered exactly once")
			seen[f] = true
			repo := f[:2]
			if len(rec.events) > 1 {
				verifrt.Assert(repoOfEvent == "" || repoOfEvent == repo, "when a result is split, an event carries files of one repository only")
			}
			repoOfEvent = repo
		}
		if len(rec.events) > 1 {
			for name := range rec.urls[i] {
				verifrt.Assert(name == repoOfEvent || name == repoOfEvent+"s", "a split event's URL map names only its own repository and sub-repositories")
			}
			_, own := rec.urls[i][repoOfEvent]
			_, sub := rec.urls[i][repoOfEvent+"s"]
			verifrt.Assert(own && (sub || !hasSub[repoOfEvent]), "a split event carries the URL of its repository and of its files' sub-repositories")
		}
	}
	verifrt.Assert(len(seen) == len(want), "no file is lost")
	verifrt.Assert(verifrt.EqInts(&total, &produced, "Duration,FlushReason"), "the statistics of a shard result are delivered exactly once in total")
	verifrt.Reach("returned")
}

// H_C25_flushCollect: newFlushCollectSender (collect and rank until the flush timer fires, then pass
// events through) with the timer firing at an arbitrary moment between, during or after the sends
// (a clock thread on the thread model; the timer is the model in verifrt/syncmodel.go) and a final
// flush at the end. 2 (quick) / 3 (thorough) events with symbolic statistics and 0..2 files each.
// For every interleaving: the statistics delivered downstream sum to the statistics produced, and
// without a display limit every file is delivered exactly once; with a display limit of one document
// no file is delivered twice and none is invented. Nothing is left in the collector after the final
// flush (a second final flush sends nothing).
func H_C25_flushCollect() {
	verifrt.ClockConcrete()
	verifrt.EnableThreads(verifrt.Param("sched", 60, 90))
	verifrt.PreemptionBound(verifrt.Param("preemptions", 2, 2))
	opts := &zoekt.SearchOptions{FlushWallTime: 1}
	limited := verifrt.Bool("displayLimit")
	if limited {
		opts.MaxDocDisplayCount = 1
	}
	rec := &c25Recorder{}
	sender, flush := newFlushCollectSender(opts, rec)
	verifrt.Go(func() {
		verifrt.Yield()
		for _, t := range verifrt.Timers {
			t.Fire()
		}
	})
	n := verifrt.Param("events", 2, 3)
	var produced zoekt.Stats
	want := map[string]bool{}
	for i := 0; i < n; i++ {
		ev := &zoekt.SearchResult{RepoURLs: map[string]string{}, LineFragments: map[string]string{}}
		verifrt.FillInts(&ev.Stats, "stats", 0, 1000, "")
		verifrt.AddInts(&produced, &ev.Stats, "")
		nf := verifrt.Concretize(verifrt.IntRange("files", 0, 2))
		repo := "r" + string(rune('1'+i))
		for k := 0; k < nf; k++ {
			fn := "f" + string(rune('a'+k))
			ev.Files = append(ev.Files, zoekt.FileMatch{Repository: repo, FileName: fn, Score: float64(k + i)})
			want[repo+"/"+fn] = true
		}
		if nf > 0 {
			ev.RepoURLs[repo] = "u"
		}
		sender.Send(ev)
	}
	flush()
	before := len(rec.events)
	flush()
	verifrt.Assert(len(rec.events) == before, "a second final flush sends nothing")
	var total zoekt.Stats
	seen := map[string]bool{}
	for i := range rec.events {
		st := rec.stats[i]
		verifrt.AddInts(&total, &st, "")
		for _, f := range rec.files[i] {
			verifrt.Assert(want[f], "no file is invented")
			verifrt.Assert(!seen[f], "no file is delivered twice")
			seen[f] = true
		}
	}
	if !limited {
		verifrt.Assert(len(seen) == len(want), "without a display limit every file is delivered")
	}
	verifrt.Assert(verifrt.EqInts(&total, &produced, "Duration,FlushReason"), "collecting and flushing conserves every statistics counter")
	verifrt.Observe("events", len(rec.events))
	verifrt.Reach("returned")
}
