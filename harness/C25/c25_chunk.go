//go:build verif

package chunk

import (
	verifrt "github.com/sourcegraph/zoekt/zz_verifrt"
	"google.golang.org/protobuf/proto"
	"google.golang.org/protobuf/types/known/wrapperspb"
)

var c25Sizes map[proto.Message]int

// c25Size replaces proto.Size under the engine: an arbitrary non-negative size per item.
func c25Size(m proto.Message) int {
	if C25SizeHook != nil {
		return C25SizeHook(m)
	}
	return c25Sizes[m]
}

// C25SizeHook lets the gRPC sender harness (package server) choose message sizes.
var C25SizeHook func(m proto.Message) int

// Chunker: concatenation of chunks = items in order; a chunk exceeds the budget only if it is a
// single item; no empty chunk except a possible first one.
func H_C25_chunker() {
	C25SizeHook = nil
	c25Sizes = map[proto.Message]int{}
	n := verifrt.Concretize(verifrt.IntRange("items", 0, verifrt.Param("items", 3, 4)))
	items := make([]*wrapperspb.Int32Value, n)
	sizes := make([]int, n)
	for i := range items {
		items[i] = &wrapperspb.Int32Value{Value: int32(i)}
		sizes[i] = verifrt.IntRange("size", 0, 3*maxMessageSize)
		c25Sizes[items[i]] = sizes[i]
	}
	var chunks [][]int32
	var chunkBytes []int
	err := SendAll(func(c []*wrapperspb.Int32Value) error {
		var ids []int32
		total := 0
		for _, it := range c {
			ids = append(ids, it.Value)
			total += c25Sizes[it]
		}
		chunks = append(chunks, ids)
		chunkBytes = append(chunkBytes, total)
		return nil
	}, items...)
	verifrt.Assert(err == nil, "no error without a failing sender")
	next := int32(0)
	for ci, c := range chunks {
		if len(c) == 0 {
			verifrt.Assert(ci == 0, "only the first chunk may be empty (first item alone exceeds the budget)")
		}
		for _, id := range c {
			verifrt.Assert(id == next, "items delivered once, in order")
			next++
		}
		if len(c) > 1 {
			verifrt.Assert(chunkBytes[ci] < maxMessageSize, "a chunk of several items stays within the size budget")
		}
	}
	verifrt.Assert(int(next) == n, "every item delivered")
	verifrt.Observe("chunks", len(chunks))
	verifrt.Reach("returned")
}
