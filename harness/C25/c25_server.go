//go:build verif

package server

import (
	"google.golang.org/protobuf/proto"

	"github.com/sourcegraph/zoekt"
	"github.com/sourcegraph/zoekt/grpc/chunk"
	webserverv1 "github.com/sourcegraph/zoekt/grpc/protos/zoekt/webserver/v1"
	verifrt "github.com/sourcegraph/zoekt/zz_verifrt"
)

type c25Rec struct {
	stats []zoekt.Stats
	files [][]string
}

func (r *c25Rec) Send(e *zoekt.SearchResult) {
	r.stats = append(r.stats, e.Stats) // copy: the sampler reuses its aggregate
	var names []string
	for _, f := range e.Files {
		names = append(names, f.FileName)
	}
	r.files = append(r.files, names)
}

// samplingSender from an arbitrary reachable state: every counter of zoekt.Stats is conserved
// (field list taken from the type), files are forwarded at once, once, in order.
func H_C25_sampler() {
	rec := &c25Rec{}
	s := newSamplingSender(rec)
	s.aggCount = verifrt.IntRange("aggCount", 0, 250)
	verifrt.FillInts(&s.agg.Stats, "agg", 0, 1000, "")
	produced := s.agg.Stats
	var producedFiles []string
	n := verifrt.Concretize(verifrt.IntRange("events", 0, verifrt.Param("events", 2, 2)))
	fileID := 0
	for i := 0; i < n; i++ {
		ev := &zoekt.SearchResult{}
		verifrt.FillInts(&ev.Stats, "ev", 0, 1000, "")
		nf := verifrt.Concretize(verifrt.IntRange("files", 0, 2))
		for k := 0; k < nf; k++ {
			name := string(rune('A' + fileID))
			fileID++
			ev.Files = append(ev.Files, zoekt.FileMatch{FileName: name})
			producedFiles = append(producedFiles, name)
		}
		verifrt.AddInts(&produced, &ev.Stats, "")
		before := len(rec.stats)
		s.Send(ev)
		if nf > 0 {
			verifrt.Assert(len(rec.stats) == before+1, "an event with files is forwarded at once")
			verifrt.Assert(len(rec.files[before]) == nf, "with all its files")
		}
	}
	s.Flush()
	var delivered zoekt.Stats
	var deliveredFiles []string
	for i := range rec.stats {
		st := rec.stats[i]
		verifrt.AddInts(&delivered, &st, "")
		deliveredFiles = append(deliveredFiles, rec.files[i]...)
	}
	verifrt.Observe("messages", len(rec.stats))
	// Duration is a per-response wall-clock value that Stats.Add leaves out on purpose; FlushReason is
	// not a counter ("first non-zero wins"). Every other integer field must be conserved.
	verifrt.Assert(verifrt.EqInts(&delivered, &produced, "Duration,FlushReason"), "every statistics counter is conserved")
	verifrt.Assert(len(deliveredFiles) == len(producedFiles), "every file delivered exactly once")
	for i := range producedFiles {
		verifrt.Assert(deliveredFiles[i] == producedFiles[i], "files delivered in the order produced")
	}
	verifrt.Reach("returned")
}

func H_C25_twin() {
	H_C25_sampler()
	verifrt.Assert(false, "twin")
}

// ---- gRPCChunkSender: one zoekt event becomes one or more wire messages

type c25Msg struct {
	files    []string
	stats    *zoekt.Stats
	priority float64
	pending  float64
}

// c25Stream records each message at the moment it is sent, as the real stream serialises it
// before Send returns (the chunker reuses its buffer afterwards).
type c25Stream struct {
	webserverv1.WebserverService_StreamSearchServer // nil: only Send is used
	sent                                            []c25Msg
}

func (s *c25Stream) Send(m *webserverv1.StreamSearchResponse) error {
	c := m.GetResponseChunk()
	msg := c25Msg{priority: c.GetProgress().GetPriority(), pending: c.GetProgress().GetMaxPendingPriority()}
	for _, f := range c.GetFiles() {
		msg.files = append(msg.files, string(f.GetFileName()))
	}
	if c.GetStats() != nil {
		st := zoekt.StatsFromProto(c.GetStats())
		msg.stats = &st
	}
	s.sent = append(s.sent, msg)
	return nil
}

// c25ProtoSize replaces proto.Size under the engine: an arbitrary non-negative size per file match
// (so that any split of an event's files into wire messages is explored).
func c25ProtoSize(m proto.Message) int {
	if fm, ok := m.(*webserverv1.FileMatch); ok {
		k := int(fm.GetFileName()[0] - 'A')
		if k >= 0 && k < len(c25NextSizes) {
			return c25NextSizes[k]
		}
	}
	return 0
}

// H_C25_grpcSender: every event sent through gRPCChunkSender arrives as messages whose files,
// concatenated, are the event's files in order; the event's statistics are attached to exactly one
// message; every message but the last of an event tells the client that more is pending
// (MaxPendingPriority >= Priority) and the last one carries the event's own progress; a stats-only
// event is forwarded as one message.
func H_C25_grpcSender() {
	chunk.C25SizeHook = c25ProtoSize
	st := &c25Stream{}
	sender := gRPCChunkSender(st)
	ev := &zoekt.SearchResult{}
	verifrt.FillInts(&ev.Stats, "ev", 0, 1000, c25Durations)
	ev.Progress = zoekt.Progress{Priority: float64(verifrt.Concretize(verifrt.IntRange("priority", 0, 2))), MaxPendingPriority: float64(verifrt.Concretize(verifrt.IntRange("pending", 0, 2)))}
	nf := verifrt.Concretize(verifrt.IntRange("files", 0, verifrt.Param("files", 3, 4)))
	for k := 0; k < nf; k++ {
		ev.Files = append(ev.Files, zoekt.FileMatch{FileName: string(rune('A' + k))})
	}
	// sizes are attached to the wire file matches as they are created: intercept through the size stub
	c25NextSizes = nil
	for k := 0; k < nf; k++ {
		c25NextSizes = append(c25NextSizes, verifrt.IntRange("size", 0, 3<<20))
	}
	sender.Send(ev)
	verifrt.Observe("messages", len(st.sent))
	verifrt.Assert(len(st.sent) >= 1, "an event is never swallowed")
	var names []string
	withStats := 0
	var total zoekt.Stats
	for i, m := range st.sent {
		names = append(names, m.files...)
		if m.stats != nil {
			withStats++
			verifrt.AddInts(&total, m.stats, "")
		}
		if i < len(st.sent)-1 {
			verifrt.Assert(m.pending >= m.priority, "a message that is not the last of its event announces pending results")
		} else {
			verifrt.Assert(m.priority == ev.Progress.Priority && m.pending == ev.Progress.MaxPendingPriority, "the last message of an event carries the event's own progress")
		}
	}
	verifrt.Assert(withStats == 1, "the statistics of an event are attached to exactly one message")
	verifrt.Assert(verifrt.EqInts(&total, &ev.Stats, c25Durations+",FlushReason"), "the statistics arrive unchanged")
	verifrt.Assert(len(names) == nf, "every file of the event is delivered exactly once")
	for k := range names {
		verifrt.Assert(names[k] == string(rune('A'+k)), "files are delivered in order")
	}
	verifrt.Reach("returned")
}

var c25NextSizes []int

// time.Duration fields travel as durationpb messages (a blackholed dependency): left at zero
const c25Durations = "Duration,Wait,MatchTreeConstruction,MatchTreeSearch"
