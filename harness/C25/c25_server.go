//go:build verif

package server

import (
	"github.com/sourcegraph/zoekt"
	verifrt "github.com/sourcegraph/zoekt/zz_verifrt"
)

type c25Rec struct {
	stats []zoekt.Stats
	files [][]string
}

func (r *c25Rec) Send(e *zoekt.SearchResult) {
	r.stats = append(r.stats, e.Stats) // copy: the sampler reuses its aggregate
	var names []string
	for _, f := range e.Files {
		names = append(names, f.FileName)
	}
	r.files = append(r.files, names)
}

// samplingSender from an arbitrary reachable state: every counter of zoekt.Stats is conserved
// (field list taken from the type), files are forwarded at once, once, in order.
func H_C25_sampler() {
	rec := &c25Rec{}
	s := newSamplingSender(rec)
	s.aggCount = verifrt.IntRange("aggCount", 0, 250)
	verifrt.FillInts(&s.agg.Stats, "agg", 0, 1000, "")
	produced := s.agg.Stats
	var producedFiles []string
	n := verifrt.Concretize(verifrt.IntRange("events", 0, verifrt.Param("events", 2, 2)))
	fileID := 0
	for i := 0; i < n; i++ {
		ev := &zoekt.SearchResult{}
		verifrt.FillInts(&ev.Stats, "ev", 0, 1000, "")
		nf := verifrt.Concretize(verifrt.IntRange("files", 0, 2))
		for k := 0; k < nf; k++ {
			name := string(rune('A' + fileID))
			fileID++
			ev.Files = append(ev.Files, zoekt.FileMatch{FileName: name})
			producedFiles = append(producedFiles, name)
		}
		verifrt.AddInts(&produced, &ev.Stats, "")
		before := len(rec.stats)
		s.Send(ev)
		if nf > 0 {
			verifrt.Assert(len(rec.stats) == before+1, "an event with files is forwarded at once")
			verifrt.Assert(len(rec.files[before]) == nf, "with all its files")
		}
	}
	s.Flush()
	var delivered zoekt.Stats
	var deliveredFiles []string
	for i := range rec.stats {
		st := rec.stats[i]
		verifrt.AddInts(&delivered, &st, "")
		deliveredFiles = append(deliveredFiles, rec.files[i]...)
	}
	verifrt.Observe("messages", len(rec.stats))
	// Duration is a per-response wall-clock value that Stats.Add leaves out on purpose; FlushReason is
	// not a counter ("first non-zero wins"). Every other integer field must be conserved.
	verifrt.Assert(verifrt.EqInts(&delivered, &produced, "Duration,FlushReason"), "every statistics counter is conserved")
	verifrt.Assert(len(deliveredFiles) == len(producedFiles), "every file delivered exactly once")
	for i := range producedFiles {
		verifrt.Assert(deliveredFiles[i] == producedFiles[i], "files delivered in the order produced")
	}
	verifrt.Reach("returned")
}

func H_C25_twin() {
	H_C25_sampler()
	verifrt.Assert(false, "twin")
}
