//go:build verif

package index

import (
	verifrt "github.com/sourcegraph/zoekt/zz_verifrt"
)

// Decoders that run while a shard is loaded or searched, on arbitrary bytes: no panic, no
// runaway allocation, termination within a budget proportional to the input.

func c11Input() ([]byte, int) {
	n := verifrt.Concretize(verifrt.IntRange("n", 0, verifrt.Param("n", 5, 8)))
	return verifrt.Bytes("b", n), n
}

func H_C11_fromSizedDeltas() {
	b, n := c11Input()
	verifrt.AllocBound(1 << 16)
	verifrt.LoopBudget(n+2, 200000)
	r := fromSizedDeltas(b, nil)
	verifrt.LoopBudgetEnd()
	verifrt.AllocCheck()
	verifrt.Observe("len", len(r))
	verifrt.Reach("returned")
}

func H_C11_fromSizedDeltas16() {
	b, n := c11Input()
	verifrt.AllocBound(1 << 16)
	verifrt.LoopBudget(n+2, 200000)
	r := fromSizedDeltas16(b, nil)
	verifrt.LoopBudgetEnd()
	verifrt.AllocCheck()
	verifrt.Observe("len", len(r))
	verifrt.Reach("returned")
}

func H_C11_unmarshalDocSections() {
	b, n := c11Input()
	verifrt.AllocBound(1 << 16)
	verifrt.LoopBudget(n+2, 200000)
	r := unmarshalDocSections(b, nil)
	verifrt.LoopBudgetEnd()
	verifrt.AllocCheck()
	verifrt.Observe("len", len(r))
	verifrt.Reach("returned")
}

func H_C11_fromDeltas() {
	b, n := c11Input()
	verifrt.LoopBudget(n+2, 200000)
	r := fromDeltas(b, nil)
	verifrt.LoopBudgetEnd()
	verifrt.Observe("len", len(r))
	verifrt.Reach("returned")
}

// posting iterator over an arbitrary blob: first/next with symbolic limits terminate, no panic.
func H_C11_compressedIter() {
	b, n := c11Input()
	verifrt.LoopBudget(n+2, 200000)
	it := newCompressedPostingIterator(b, 0)
	for k := 0; k < 2; k++ {
		it.next(verifrt.U32("limit"))
		_ = it.first()
	}
	verifrt.LoopBudgetEnd()
	verifrt.Reach("returned")
}
