//go:build verif

package index

import (
	verifrt "github.com/sourcegraph/zoekt/zz_verifrt"
)

// Decoders that run while a shard is loaded or searched, on arbitrary bytes: no panic, no
// runaway allocation, termination within a budget proportional to the input.

func c11Input() ([]byte, int) {
	n := verifrt.Concretize(verifrt.IntRange("n", 0, verifrt.Param("n", 5, 8)))
	return verifrt.Bytes("b", n), n
}

func H_C11_fromSizedDeltas() {
	b, n := c11Input()
	verifrt.AllocBound(1 << 16)
	verifrt.LoopBudget(n+2, 200000)
	r := fromSizedDeltas(b, nil)
	verifrt.LoopBudgetEnd()
	verifrt.AllocCheck()
	verifrt.Observe("len", len(r))
	verifrt.Reach("returned")
}

func H_C11_fromSizedDeltas16() {
	b, n := c11Input()
	verifrt.AllocBound(1 << 16)
	verifrt.LoopBudget(n+2, 200000)
	r := fromSizedDeltas16(b, nil)
	verifrt.LoopBudgetEnd()
	verifrt.AllocCheck()
	verifrt.Observe("len", len(r))
	verifrt.Reach("returned")
}

func H_C11_unmarshalDocSections() {
	b, n := c11Input()
	verifrt.AllocBound(1 << 16)
	verifrt.LoopBudget(n+2, 200000)
	r := unmarshalDocSections(b, nil)
	verifrt.LoopBudgetEnd()
	verifrt.AllocCheck()
	verifrt.Observe("len", len(r))
	verifrt.Reach("returned")
}

func H_C11_fromDeltas() {
	b, n := c11Input()
	verifrt.LoopBudget(n+2, 200000)
	r := fromDeltas(b, nil)
	verifrt.LoopBudgetEnd()
	verifrt.Observe("len", len(r))
	verifrt.Reach("returned")
}

// posting iterator over an arbitrary blob: first/next with symbolic limits terminate, no panic.
func H_C11_compressedIter() {
	b, n := c11Input()
	verifrt.LoopBudget(n+2, 200000)
	it := newCompressedPostingIterator(b, 0)
	for k := 0; k < 2; k++ {
		it.next(verifrt.U32("limit"))
		_ = it.first()
	}
	verifrt.LoopBudgetEnd()
	verifrt.Reach("returned")
}

// the reader's window onto the file: any (offset, size) pair read from a corrupt table of contents
// is answered with the bytes or an error, never a panic (32-bit wrap-around of off+sz included).
func H_C11_mmapRead() {
	n := verifrt.Concretize(verifrt.IntRange("n", 0, 6))
	f := &mmapedIndexFile{name: "x", size: uint32(n), data: make([]byte, n)}
	off, sz := verifrt.U32("off"), verifrt.U32("sz")
	b, err := f.Read(off, sz)
	verifrt.Observe("err", err != nil)
	fits := uint64(off)+uint64(sz) <= uint64(n)
	verifrt.Assert((err == nil) == fits, "Read succeeds exactly for ranges inside the file")
	if err == nil {
		verifrt.Assert(len(b) == int(sz), "Read returns the requested number of bytes")
	}
	verifrt.Reach("returned")
}

// H_C11_corruptTOC (style P): a real shard (3 repositories, written by the real writer) in which one
// byte near the end of the file - the table of contents and the trailer that locates it - is
// arbitrary. Loading returns a searcher or an error; if it loads, searching and listing through the
// entry points the sharded searcher uses either work or fail as contained panics. What must not
// happen is a panic while loading (loadShard runs without recover) or a runaway loop/allocation.
func H_C11_corruptTOC() {
	verifrt.ClockConcrete()
	shard := verifWriteShard(verifThreeRepos(), "verif-corrupt.zoekt")
	n := len(shard.data)
	back := verifrt.Concretize(verifrt.IntRange("fromEnd", 1, verifrt.Param("window", 12, 48)))
	data := append([]byte(nil), shard.data...)
	data[n-back] = verifrt.U8("byte")
	verifrt.AllocBound(1 << 20)
	verifrt.LoopBudget(600, 3000000)
	s, err := NewSearcher(verifFile(data, "verif-corrupt.zoekt"))
	verifrt.LoopBudgetEnd()
	verifrt.AllocCheck()
	verifrt.Observe("loaded", err == nil)
	if err == nil {
		verifrt.Assert(s != nil, "a loaded shard has a searcher")
	}
	verifrt.Reach("returned")
}
