//go:build verif

package search

import (
	"context"

	"github.com/sourcegraph/zoekt"
	"github.com/sourcegraph/zoekt/index"
	"github.com/sourcegraph/zoekt/query"
	verifrt "github.com/sourcegraph/zoekt/zz_verifrt"
)

// H_C11_contain (style P): a real one-repository shard (written by the real writer) with one
// arbitrary byte at a symbolic position - in the table of contents / trailer (regime 0) or in the
// body: contents, posting lists, offsets, metadata (regime 1: a stride of positions over the whole
// file), or (a compound shard of two repositories too in the thorough tier) with one offset/size field of the table of contents changed by +-1/+-4/-8 or set to 0 [also +8/+-2] (regime 2;
// positions inside the two JSON metadata sections are skipped) - is loaded the way the loader does. If it loads, it is searched and listed through the
// sharded searcher's per-shard entry points searchOneShard and listOneShard. No panic escapes
// (loading has no recover; search and list are contained and report one crash), no loop runs past
// its budget, no allocation is unbounded; a search that did not crash returns a result.
func H_C11_contain() {
	verifrt.ClockConcrete()
	data := index.VerifSimpleShardBytes(1, "r1", []string{"a.go", "b.go"}, []string{"func needle() {}\nline two\n", "plain text\n"})
	n := len(data)
	var pos int
	regime := verifrt.Concretize(verifrt.IntRange("regime", 0, 2))
	if regime == 2 && verifrt.Param("compound", 0, 1) == 1 && verifrt.Bool("compoundShard") {
		// thorough tier: the table-of-contents fields of a compound shard of two repositories too
		// (it has a per-document repository table)
		data = index.VerifCompoundShardBytes(data, index.VerifSimpleShardBytes(2, "r2", []string{"c.go"}, []string{"another needle\n"}))
		n = len(data)
	}
	switch regime {
	case 0:
		pos = n - verifrt.Concretize(verifrt.IntRange("fromEnd", 1, verifrt.Param("window", 8, 48)))
	case 1:
		k := verifrt.Param("positions", 8, 96)
		pos = verifrt.Concretize(verifrt.IntRange("slot", 0, k-1)) * (n - 48) / k
	default:
		// one section's offset or size in the table of contents is off by a little: the section
		// still lies inside the file but no longer has the length the other sections imply
		fields := index.VerifTOCFields(data)
		pos = fields[verifrt.Concretize(verifrt.IntRange("field", 0, len(fields)-1))] + 3 // low-order byte
		const zero = 1000 // the whole field becomes 0
		deltas := []int{-4, -1, 1, 4, -8, zero, 8, -2, 2}
		d := deltas[verifrt.Concretize(verifrt.IntRange("delta", 0, verifrt.Param("deltas", 5, 8)))]
		if d == zero {
			data[pos-3], data[pos-2], data[pos-1], data[pos] = 0, 0, 0, 0
		} else {
			data[pos] = byte(int(data[pos]) + d)
		}
		pos = -1
	}
	if pos >= 0 {
		if index.VerifInJSONSection(data, pos) {
			// corrupt JSON metadata is outside this harness (encoding/json is a token model)
			verifrt.Reach("returned")
			return
		}
		data[pos] = verifrt.U8("byte")
	}
	verifrt.AllocBound(1 << 20)
	verifrt.LoopBudget(600, 3000000)
	s, err := index.VerifSearcherFromBytes(data, "corrupt.zoekt")
	verifrt.Observe("loaded", err == nil)
	if err == nil {
		for _, q := range []query.Q{&query.Substring{Pattern: "needle"}, &query.Substring{Pattern: "a.go", FileName: true}} {
			sr, serr := searchOneShard(context.Background(), s, q, &zoekt.SearchOptions{})
			verifrt.Assert(serr != nil || sr != nil, "a contained search returns a result or an error")
			if sr != nil {
				verifrt.Assert(sr.Stats.Crashes == 0 || sr.Stats.Crashes == 1, "a crash is counted once")
			}
		}
		sink := make(chan shardListResult, 2)
		listOneShard(context.Background(), s, &query.Const{Value: true}, &zoekt.ListOptions{}, sink)
		verifrt.Assert(len(sink) == 1, "listing a shard reports exactly one answer, crashed or not")
		r := <-sink
		verifrt.Assert(r.err != nil || r.rl != nil, "a contained listing returns a list or an error")
	}
	verifrt.LoopBudgetEnd()
	verifrt.AllocCheck()
	verifrt.Reach("returned")
}
