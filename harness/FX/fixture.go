//go:build verif

package index

// Shared fixture (style P): a tiny real shard is built by the real ShardBuilder,
// written by the real Write into memory and loaded by the real reader. Under the
// engine all of this is interpreted concretely; symbolic values enter afterwards
// (query, options, tombstone flags ...).

import (
	"bytes"
	"context"
	"encoding/binary"
	"fmt"
	"io/fs"

	"github.com/sourcegraph/zoekt"
	"github.com/sourcegraph/zoekt/query"
	verifrt "github.com/sourcegraph/zoekt/zz_verifrt"
)

// verifMemFile: zoekt's own mmap-backed IndexFile type over an in-memory byte slice (its Read with
// the real bounds check is what the reader goes through; Close is never called on it).
type verifMemFile = mmapedIndexFile

func verifFile(data []byte, name string) *verifMemFile {
	return &mmapedIndexFile{name: name, size: uint32(len(data)), data: data}
}

// verifNoFile replaces os.ReadFile under the engine (sidecar lookup of parseMetadata): no sidecar.
func verifNoFile(name string) ([]byte, error) {
	return nil, &fs.PathError{Op: "open", Path: name, Err: fs.ErrNotExist}
}

type verifDoc struct {
	name     string
	content  string
	branches []string
}

func verifRepo(id uint32, name string, branches ...string) *zoekt.Repository {
	r := &zoekt.Repository{ID: id, Name: name, URL: "https://h/" + name,
		FileURLTemplate: "https://h/" + name + "/{{.Path}}", LineFragmentTemplate: "#L{{.LineNumber}}", CommitURLTemplate: "https://h/" + name + "/{{.Version}}"}
	for _, b := range branches {
		r.Branches = append(r.Branches, zoekt.RepositoryBranch{Name: b, Version: "v-" + b})
	}
	return r
}

func verifWriteShard(b *ShardBuilder, name string) *verifMemFile {
	var buf bytes.Buffer
	if err := b.Write(&buf); err != nil {
		panic("fixture: write: " + err.Error())
	}
	return verifFile(buf.Bytes(), name)
}

func verifLoad(f *verifMemFile) *indexData {
	s, err := NewSearcher(f)
	if err != nil {
		panic("fixture: load: " + err.Error())
	}
	return s.(*indexData)
}

// verifSimpleShard builds, writes and loads a one-repository shard.
func verifSimpleShard(repo *zoekt.Repository, docs []verifDoc) *indexData {
	b, err := NewShardBuilder(repo)
	if err != nil {
		panic("fixture: builder: " + err.Error())
	}
	for _, d := range docs {
		br := d.branches
		if br == nil && len(repo.Branches) > 0 {
			br = []string{repo.Branches[0].Name}
		}
		if err := b.Add(Document{Name: d.name, Content: []byte(d.content), Branches: br, Language: "Go", Category: FileCategoryDefault}); err != nil {
			panic("fixture: add: " + err.Error())
		}
	}
	return verifLoad(verifWriteShard(b, "verif-"+repo.Name+".zoekt"))
}

// verifCompoundBuilder merges simple shards with the real merge; the caller may adjust
// repository metadata (tombstones, tenants) before writing.
func verifCompoundBuilder(ds ...*indexData) *ShardBuilder {
	b, err := merge(ds...)
	if err != nil {
		panic("fixture: merge: " + err.Error())
	}
	return b
}

func verifCompoundShard(ds ...*indexData) *indexData {
	return verifLoad(verifWriteShard(verifCompoundBuilder(ds...), "verif-compound.zoekt"))
}

// verifThreeRepos: three repositories (ids 1..3, names r1..r3, branches main+dev), each with
// a.go and b.go; every a.go contains "needle", b.go of r2 contains it too.
func verifThreeRepos() *ShardBuilder {
	var ds []*indexData
	for i := 1; i <= 3; i++ {
		name := fmt.Sprintf("r%d", i)
		b := "plain text\nnothing here\n"
		if i == 2 {
			b = "second needle\n"
		}
		ds = append(ds, verifSimpleShard(verifRepo(uint32(i), name, "main", "dev"), []verifDoc{
			{name: "a.go", content: "func needle" + name + "() {}\nline two\n", branches: []string{"main"}},
			{name: "b.go", content: b, branches: []string{"main", "dev"}},
		}))
	}
	return verifCompoundBuilder(ds...)
}

func verifRepoIndex(name string) int {
	switch name {
	case "r1":
		return 0
	case "r2":
		return 1
	case "r3":
		return 2
	}
	return -1
}

// verifNewIndexFile replaces NewIndexFile(*os.File) where the code under test opens shards
// through the environment model (config "rewrite").
func verifNewIndexFile(f *verifrt.File) (IndexFile, error) {
	return verifFile(f.Data(), f.Name()), nil
}

// ---- exported helpers for harnesses in other packages (cmd/...)

// VerifNewIndexFile: IndexFile over a file of the environment model.
func VerifNewIndexFile(f *verifrt.File) (IndexFile, error) { return verifNewIndexFile(f) }

// VerifSimpleShardBytes: a one-repository shard (files name -> content, all on branch main) as bytes.
func VerifSimpleShardBytes(id uint32, repo string, names []string, contents []string) []byte {
	b, err := NewShardBuilder(verifRepo(id, repo, "main"))
	if err != nil {
		panic(err)
	}
	for i := range names {
		if err := b.Add(Document{Name: names[i], Content: []byte(contents[i]), Branches: []string{"main"}, Language: "Go", Category: FileCategoryDefault}); err != nil {
			panic(err)
		}
	}
	return verifWriteShard(b, repo).data
}

// VerifCompoundShardBytes: the real merge of the given simple shards, as bytes.
func VerifCompoundShardBytes(shards ...[]byte) []byte {
	var ds []*indexData
	for i, s := range shards {
		ds = append(ds, verifLoad(verifFile(s, fmt.Sprintf("in%d.zoekt", i))))
	}
	return verifWriteShard(verifCompoundBuilder(ds...), "compound").data
}

// VerifVisibleRepos: what a loader sees in dir: for every *.zoekt file (temporary files are not
// matched by the loader's glob) the alive repositories in it, as "repo@file" strings, sorted by file.
func VerifVisibleRepos(dir string) []string {
	paths, _ := verifrt.Glob(dir + "/*.zoekt")
	var out []string
	for _, p := range paths {
		repos, _, err := ReadMetadataPathAlive(p)
		if err != nil {
			out = append(out, "UNREADABLE@"+p)
			continue
		}
		for _, r := range repos {
			out = append(out, r.Name+"@"+p)
		}
	}
	return out
}

// VerifVisibleDocs: what a loader serves from dir: every *.zoekt file is loaded and listed (Whole).
func VerifVisibleDocs(dir string) (names []string, contents []string, unreadable int) {
	paths, _ := verifrt.Glob(dir + "/*.zoekt")
	for _, p := range paths {
		f, err := verifrt.OsOpen(p)
		if err != nil {
			unreadable++
			continue
		}
		inf, _ := verifNewIndexFile(f)
		s, err := NewSearcher(inf)
		if err != nil {
			unreadable++
			continue
		}
		res, err := s.Search(context.Background(), &query.Const{Value: true}, &zoekt.SearchOptions{Whole: true})
		if err != nil {
			unreadable++
			continue
		}
		for _, fm := range res.Files {
			names = append(names, fm.FileName)
			contents = append(contents, string(fm.Content))
		}
	}
	return names, contents, unreadable
}

// VerifDefaultCategory / VerifDefaultLanguage replace the go-enry based classification in Builder.Add
// (config "rewrite") for harnesses whose subject is not file classification.
func VerifDefaultCategory(doc *Document) {
	if doc.Category == FileCategoryMissing {
		doc.Category = FileCategoryDefault
	}
}

func VerifDefaultLanguage(doc *Document) {
	if doc.Language == "" {
		doc.Language = "Text"
	}
}

// VerifThreeRepoSearcher: the compound shard of verifThreeRepos (r1..r3, ids 1..3, branches main+dev)
// as a zoekt.Searcher; VerifSimpleSearcher: a one-repository shard (id, name, branch names) with
// files a.go ("func needle<name>...") on the first branch and b.go on all branches.
func VerifThreeRepoSearcher() zoekt.Searcher {
	return verifLoad(verifWriteShard(verifThreeRepos(), "verif-compound.zoekt"))
}

func VerifSimpleSearcher(id uint32, name string, branches ...string) zoekt.Searcher {
	return verifSimpleShard(verifRepo(id, name, branches...), []verifDoc{
		{name: "a.go", content: "func needle" + name + "() {}\nline two\n", branches: []string{branches[0]}},
		{name: "b.go", content: "plain text\n", branches: branches},
	})
}

// VerifShardWithSource: a one-file simple shard of repository (id, name) whose Source is source.
func VerifShardWithSource(id uint32, name, source string) []byte {
	r := verifRepo(id, name, "main")
	r.Source = source
	b, err := NewShardBuilder(r)
	if err != nil {
		panic(err)
	}
	if err := b.Add(Document{Name: "f.go", Content: []byte("package f\n"), Branches: []string{"main"}, Language: "Go", Category: FileCategoryDefault}); err != nil {
		panic(err)
	}
	return verifWriteShard(b, name).data
}

// VerifSearcherFromBytes: what the loader does with a shard file's bytes (NewSearcher over an
// in-memory IndexFile).
func VerifSearcherFromBytes(data []byte, name string) (zoekt.Searcher, error) {
	return NewSearcher(verifFile(data, name))
}

// VerifInJSONSection: whether byte pos of the (valid) shard lies in one of its two JSON sections
// (index metadata, repository metadata), whose decoding is a token model in the engine.
func VerifInJSONSection(data []byte, pos int) bool {
	r := &reader{r: verifFile(data, "layout.zoekt")}
	var toc indexTOC
	if err := r.readTOC(&toc); err != nil {
		panic(err)
	}
	for _, s := range []simpleSection{toc.metaData, toc.repoMetaData} {
		if uint32(pos) >= s.off && uint32(pos) < s.off+s.sz {
			return true
		}
	}
	return false
}

// VerifTOCStart: the offset at which the table of contents of the (valid) shard begins; the TOC and
// the 8-byte trailer that locates it run from there to the end of the file.
func VerifTOCStart(data []byte) int {
	r := &reader{r: verifFile(data, "layout.zoekt")}
	toc, _, err := r.readHeader()
	if err != nil {
		panic(err)
	}
	return int(toc.off)
}

// VerifTOCFields: the file positions of the 4-byte big-endian offset and size fields of every
// section entry in the (valid) shard's table of contents (compound sections contribute their data
// and index entries), found by locating each entry's (off, sz) pair in the TOC bytes. The two JSON
// metadata sections are left out (their decoding is a token model in the engine).
func VerifTOCFields(data []byte) []int {
	r := &reader{r: verifFile(data, "layout.zoekt")}
	var toc indexTOC
	if err := r.readTOC(&toc); err != nil {
		panic(err)
	}
	start := VerifTOCStart(data)
	var out []int
	find := func(s simpleSection) {
		if s.sz == 0 {
			return
		}
		var pat [8]byte
		binary.BigEndian.PutUint32(pat[0:], s.off)
		binary.BigEndian.PutUint32(pat[4:], s.sz)
		for i := start; i+8 <= len(data)-8; i++ {
			if string(data[i:i+8]) == string(pat[:]) {
				out = append(out, i, i+4)
				return
			}
		}
	}
	for _, ent := range toc.sectionsTaggedList() {
		if ent.tag == "metaData" || ent.tag == "repoMetaData" {
			continue
		}
		switch s := ent.sec.(type) {
		case *simpleSection:
			find(*s)
		case *compoundSection:
			find(s.data)
			find(s.index)
		case *lazyCompoundSection:
			find(s.data)
			find(s.index)
		}
	}
	return out
}
