//go:build verif

package index

// Shared fixture (style P): a tiny real shard is built by the real ShardBuilder,
// written by the real Write into memory and loaded by the real reader. Under the
// engine all of this is interpreted concretely; symbolic values enter afterwards
// (query, options, tombstone flags ...).

import (
	"bytes"
	"fmt"
	"io/fs"

	"github.com/sourcegraph/zoekt"
)

type verifMemFile struct {
	data []byte
	name string
}

func (f *verifMemFile) Read(off, sz uint32) ([]byte, error) {
	if uint64(off)+uint64(sz) > uint64(len(f.data)) {
		return nil, fmt.Errorf("verifMemFile: out of bounds read %d+%d > %d", off, sz, len(f.data))
	}
	return f.data[off : off+sz], nil
}
func (f *verifMemFile) Size() (uint32, error) { return uint32(len(f.data)), nil }
func (f *verifMemFile) Close()                {}
func (f *verifMemFile) Name() string          { return f.name }

// verifNoFile replaces os.ReadFile under the engine (sidecar lookup of parseMetadata): no sidecar.
func verifNoFile(name string) ([]byte, error) {
	return nil, &fs.PathError{Op: "open", Path: name, Err: fs.ErrNotExist}
}

type verifDoc struct {
	name     string
	content  string
	branches []string
}

func verifRepo(id uint32, name string, branches ...string) *zoekt.Repository {
	r := &zoekt.Repository{ID: id, Name: name}
	for _, b := range branches {
		r.Branches = append(r.Branches, zoekt.RepositoryBranch{Name: b, Version: "v-" + b})
	}
	return r
}

func verifWriteShard(b *ShardBuilder, name string) *verifMemFile {
	var buf bytes.Buffer
	if err := b.Write(&buf); err != nil {
		panic("fixture: write: " + err.Error())
	}
	return &verifMemFile{data: buf.Bytes(), name: name}
}

func verifLoad(f *verifMemFile) *indexData {
	s, err := NewSearcher(f)
	if err != nil {
		panic("fixture: load: " + err.Error())
	}
	return s.(*indexData)
}

// verifSimpleShard builds, writes and loads a one-repository shard.
func verifSimpleShard(repo *zoekt.Repository, docs []verifDoc) *indexData {
	b, err := NewShardBuilder(repo)
	if err != nil {
		panic("fixture: builder: " + err.Error())
	}
	for _, d := range docs {
		br := d.branches
		if br == nil && len(repo.Branches) > 0 {
			br = []string{repo.Branches[0].Name}
		}
		if err := b.Add(Document{Name: d.name, Content: []byte(d.content), Branches: br, Language: "Go", Category: FileCategoryDefault}); err != nil {
			panic("fixture: add: " + err.Error())
		}
	}
	return verifLoad(verifWriteShard(b, "verif-"+repo.Name+".zoekt"))
}

// verifCompoundBuilder merges simple shards with the real merge; the caller may adjust
// repository metadata (tombstones, tenants) before writing.
func verifCompoundBuilder(ds ...*indexData) *ShardBuilder {
	b, err := merge(ds...)
	if err != nil {
		panic("fixture: merge: " + err.Error())
	}
	return b
}

func verifCompoundShard(ds ...*indexData) *indexData {
	return verifLoad(verifWriteShard(verifCompoundBuilder(ds...), "verif-compound.zoekt"))
}

// verifThreeRepos: three repositories (ids 1..3, names r1..r3, branches main+dev), each with
// a.go and b.go; every a.go contains "needle", b.go of r2 contains it too.
func verifThreeRepos() *ShardBuilder {
	var ds []*indexData
	for i := 1; i <= 3; i++ {
		name := fmt.Sprintf("r%d", i)
		b := "plain text\nnothing here\n"
		if i == 2 {
			b = "second needle\n"
		}
		ds = append(ds, verifSimpleShard(verifRepo(uint32(i), name, "main", "dev"), []verifDoc{
			{name: "a.go", content: "func needle" + name + "() {}\nline two\n", branches: []string{"main"}},
			{name: "b.go", content: b, branches: []string{"main", "dev"}},
		}))
	}
	return verifCompoundBuilder(ds...)
}

func verifRepoIndex(name string) int {
	switch name {
	case "r1":
		return 0
	case "r2":
		return 1
	case "r3":
		return 2
	}
	return -1
}
