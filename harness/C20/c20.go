//go:build verif

package search

import (
	verifrt "github.com/sourcegraph/zoekt/zz_verifrt"
)

// The real multiScheduler (newMultiScheduler, Acquire with its release/yield closures, process.Yield,
// process.Release, deadlineTimer, sema) over a modelled weighted semaphore and timer, on the thread
// model. Two (quick) or three (thorough) searches each acquire a slot, yield up to twice (moving to
// the batch queue once their interactive timer has fired) and release; a timer thread fires every
// interactive timer at an arbitrary moment; a canceller thread cancels one search's context at an
// arbitrary moment. Interactive capacity is symbolic (1 or 2).
func H_C20_slots() {
	verifrt.ClockConcrete()
	verifrt.EnableThreads(verifrt.Param("sched", 80, 120))
	verifrt.PreemptionBound(verifrt.Param("preemptions", 1, 2))
	capacity := int64(verifrt.Concretize(verifrt.IntRange("capacity", 1, 2)))
	s := newMultiScheduler(capacity)
	n := verifrt.Param("searches", 2, 3)
	victim := verifrt.Concretize(verifrt.IntRange("cancelled", 0, n)) // n = nobody is cancelled
	ctxs := make([]*verifrt.TestCtx, n)
	running := 0
	finished := 0
	for i := 0; i < n; i++ {
		ctxs[i] = verifrt.NewTestCtx()
		ctx := ctxs[i]
		verifrt.Go(func() {
			p, err := s.Acquire(ctx)
			if err != nil {
				verifrt.Assert(ctx.Cancelled, "Acquire fails only for a cancelled search")
				finished++
				return
			}
			running++
			verifrt.Assert(int64(running) <= s.semInteractive.sem.Size+s.semBatch.sem.Size, "never more searches hold a slot than the two queues admit")
			for k := 0; k < 2; k++ {
				// like streamSearch, which yields at every iteration and ignores the error: a failed
				// Yield may be followed by another one
				if yerr := p.Yield(ctx); yerr != nil {
					verifrt.Assert(ctx.Cancelled, "Yield fails only for a cancelled search")
				}
			}
			running--
			p.Release()
			finished++
		})
	}
	// the clock: every interactive timer created so far may expire, at any moment
	verifrt.Go(func() {
		for round := 0; round < 2; round++ {
			verifrt.Yield()
			for _, t := range verifrt.Timers {
				t.Fire()
			}
		}
	})
	if victim < n {
		verifrt.Go(func() {
			verifrt.Yield()
			ctxs[victim].Cancel()
		})
	}
	verifrt.WaitUntil(func() bool { return finished == n })
	verifrt.Assert(s.semInteractive.sem.Cur == 0, "every interactive slot has been given back")
	verifrt.Assert(s.semBatch.sem.Cur == 0, "every batch slot has been given back")
	verifrt.Assert(s.semInteractive.sem.Cur >= 0 && s.semBatch.sem.Cur >= 0, "no slot is released twice")
	verifrt.Observe("capacity", int(capacity))
	verifrt.Reach("returned")
}

func H_C20_twin() {
	verifrt.ClockConcrete()
	s := newMultiScheduler(1)
	ctx := verifrt.NewTestCtx()
	p, err := s.Acquire(ctx)
	verifrt.Assert(err == nil && p == nil, "twin")
}
