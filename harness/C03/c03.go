//go:build verif

package index

import (
	"context"
	"strings"
	"unicode/utf8"

	"github.com/sourcegraph/zoekt"
	"github.com/sourcegraph/zoekt/query"
	verifrt "github.com/sourcegraph/zoekt/zz_verifrt"
)

// Style P on the fixed corpus (ASCII and multi-byte lines, files with and without a final newline):
// symbolic content substring query, symbolic number of context lines (0-2), line and chunk mode.
// Every reported line number, line extent, column, context and chunk content is recomputed from the
// file content.

var verifC03Corpus = []verifDoc{
	{name: "a.go", content: "func needle() {}\nbar foo\n"},
	{name: "b.txt", content: "Needle in haystack\nfoobar\nNEEDLE\n\nlast line needle"},
	{name: "c.md", content: "héllo wörld needle\nbaz\nédle needle é\n"},
	{name: "d.txt", content: "foo"},
	{name: "e.txt", content: "\n\nfoo\n\n\nbar foo bar\n"},
}

func verifLineOf(c string, off int) int { return 1 + strings.Count(c[:off], "\n") }

func verifLineStart(c string, line int) int { // 1-based; clamped to [0,len]
	if line <= 1 {
		return 0
	}
	pos := 0
	for l := 1; l < line; l++ {
		i := strings.IndexByte(c[pos:], '\n')
		if i < 0 {
			return len(c)
		}
		pos += i + 1
	}
	return pos
}

func verifNumLines(c string) int {
	n := strings.Count(c, "\n")
	if !strings.HasSuffix(c, "\n") {
		n++
	}
	return n
}

func H_C03_locations() {
	verifrt.ClockConcrete()
	d := verifSimpleShard(verifRepo(1, "r1", "main"), verifC03Corpus)
	pat, caseSensitive := verifC02Pattern()
	chunks := verifrt.Bool("chunks")
	k := verifrt.Concretize(verifrt.IntRange("contextLines", 0, 2))
	q := &query.Substring{Pattern: string(pat), CaseSensitive: caseSensitive, Content: true}
	res, err := d.Search(context.Background(), q, &zoekt.SearchOptions{ChunkMatches: chunks, NumContextLines: k})
	verifrt.Assert(err == nil, "search succeeds")
	verifrt.Observe("nfiles", len(res.Files))
	for _, f := range res.Files {
		c := ""
		for _, doc := range verifC03Corpus {
			if doc.name == f.FileName {
				c = doc.content
			}
		}
		for _, lm := range f.LineMatches {
			ls, le := lm.LineStart, lm.LineEnd
			verifrt.Assert(ls >= 0 && ls <= le && le <= len(c), "line extent lies inside the file")
			verifrt.Assert(ls == 0 || c[ls-1] == '\n', "LineStart is the first byte of a line")
			verifrt.Assert(lm.LineNumber == verifLineOf(c, ls), "LineNumber is the 1-based number of that line")
			verifrt.Assert(le == verifLineStart(c, lm.LineNumber+1), "LineEnd is the byte after the line's newline, or the end of the file")
			verifrt.Assert(string(lm.Line) == c[ls:le], "Line is the text of that line")
			for _, fr := range lm.LineFragments {
				verifrt.Assert(int(fr.Offset) == ls+fr.LineOffset && int(fr.Offset) >= ls && int(fr.Offset)+fr.MatchLength <= le, "a fragment lies on its line, LineOffset relative to LineStart")
			}
			if k > 0 {
				verifrt.Assert(string(lm.Before) == c[verifLineStart(c, lm.LineNumber-k):ls], "Before is exactly the k preceding lines (fewer at the start of the file)")
				verifrt.Assert(string(lm.After) == c[le:verifLineStart(c, lm.LineNumber+1+k)], "After is exactly the k following lines (fewer at the end of the file)")
			} else {
				verifrt.Assert(len(lm.Before) == 0 && len(lm.After) == 0, "no context unless requested")
			}
		}
		type span struct{ lo, hi int }
		var spans []span
		for _, cm := range f.ChunkMatches {
			cs := int(cm.ContentStart.ByteOffset)
			ce := cs + len(cm.Content)
			verifrt.Assert(cm.ContentStart.Column == 1 && (cs == 0 || c[cs-1] == '\n'), "a chunk starts at the beginning of a line")
			verifrt.Assert(ce <= len(c) && string(cm.Content) == c[cs:ce], "chunk content is the file text at ContentStart")
			verifrt.Assert(ce == len(c) || c[ce-1] == '\n', "a chunk consists of whole lines")
			verifrt.Assert(int(cm.ContentStart.LineNumber) == verifLineOf(c, cs), "ContentStart.LineNumber is the line of ContentStart")
			firstLine, lastLine := 0, 0
			for i, r := range cm.Ranges {
				so, eo := int(r.Start.ByteOffset), int(r.End.ByteOffset)
				verifrt.Assert(cs <= so && so < eo && eo <= ce, "a range lies inside its chunk")
				sl := verifLineOf(c, so)
				verifrt.Assert(int(r.Start.LineNumber) == sl, "range start line")
				verifrt.Assert(int(r.Start.Column) == 1+utf8.RuneCountInString(c[verifLineStart(c, sl):so]), "range start column counts runes from the line start, 1-based")
				el := verifLineOf(c, eo-1)
				verifrt.Assert(int(r.End.LineNumber) == el, "range end line")
				verifrt.Assert(int(r.End.Column) == 1+utf8.RuneCountInString(c[verifLineStart(c, el):eo]), "range end column")
				if i == 0 {
					firstLine = sl
				}
				lastLine = el
			}
			wantFirst := firstLine - k
			if wantFirst < 1 {
				wantFirst = 1
			}
			verifrt.Assert(int(cm.ContentStart.LineNumber) == wantFirst, "a chunk starts k lines before its first match (or at the first line)")
			verifrt.Assert(ce == verifLineStart(c, lastLine+k+1), "a chunk ends k lines after its last match (or at the end of the file)")
			for _, s := range spans {
				verifrt.Assert(ce <= s.lo || s.hi <= cs, "chunks of one file do not overlap")
			}
			spans = append(spans, span{cs, ce})
		}
	}
	verifrt.Reach("returned")
}

func H_C03_twin() {
	verifrt.ClockConcrete()
	d := verifSimpleShard(verifRepo(1, "r1", "main"), verifC03Corpus)
	res, _ := d.Search(context.Background(), &query.Substring{Pattern: "needle"}, &zoekt.SearchOptions{})
	verifrt.Assert(len(res.Files) == 77, "twin")
}

// H_C03_column (kernel): columnHelper.get after an arbitrary history of lookups, on symbolic
// data (ASCII, the two bytes of a two-byte rune, newlines), for a symbolic next query that lies on
// a line: the column is 1 + the number of runes between the line start and the offset, 
func H_C03_column() {
	n := verifrt.Concretize(verifrt.IntRange("len", 1, verifrt.Param("datalen", 5, 6)))
	data := verifrt.Bytes("data", n)
	for _, c := range data {
		verifrt.Assume(verifrt.Or(verifrt.Or(c == 'a', c == '\n'), verifrt.Or(c == 0xC3, c == 0xA9)))
	}
	lineStartOK := func(ls, off int) bool {
		// ls is the start of the line the position belongs to: at 0 or after a newline, with no newline
		// in between - except that an exclusive range end may sit just past its line's own newline
		ok := ls == 0 || data[ls-1] == '\n'
		for i := ls; i < off-1 && i < n; i++ {
			ok = verifrt.And(ok, data[i] != '\n')
		}
		return ok
	}
	// match boundaries are rune boundaries (candidates come from the rune-based index or from the
	// regexp engine): an offset never splits the two bytes of a valid rune
	boundary := func(i int) bool {
		if i <= 0 || i >= n {
			return true
		}
		return !verifrt.And(data[i-1] == 0xC3, data[i] == 0xA9)
	}
	// arbitrary previous lookups (none or one; by induction over correct lookups): the helper's cache only ever describes its last
	// lookup, so this reaches every cache state; the private fields are not touched
	c := columnHelper{data: data}
	for h, hist := 0, verifrt.Concretize(verifrt.IntRange("history", 0, 1)); h < hist; h++ {
		pls := verifrt.Concretize(verifrt.IntRange("prevLineStart", 0, n))
		poff := verifrt.Concretize(verifrt.IntRange("prevOffset", pls, n))
		verifrt.Assume(lineStartOK(pls, poff))
		verifrt.Assume(boundary(poff))
		c.get(pls, uint32(poff))
	}
	ls := verifrt.Concretize(verifrt.IntRange("lineStart", 0, n))
	off := verifrt.Concretize(verifrt.IntRange("offset", ls, n))
	verifrt.Assume(lineStartOK(ls, off))
	verifrt.Assume(boundary(off))
	got := c.get(ls, uint32(off))
	want := uint32(1 + utf8.RuneCount(data[ls:off]))
	verifrt.Observe("col", got)
	verifrt.Assert(got == want, "the column is one plus the number of runes between the line start and the offset")
	verifrt.Reach("returned")
}
