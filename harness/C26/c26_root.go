//go:build verif

package zoekt

import (
	verifrt "github.com/sourcegraph/zoekt/zz_verifrt"
)

func H_C26_reposMapDecodeTotal() {
	n := verifrt.Concretize(verifrt.IntRange("n", 0, verifrt.Param("n", 8, 12)))
	b := verifrt.Bytes("b", n)
	verifrt.AllocBound(1 << 16)
	m, err := reposMapDecode(b)
	verifrt.AllocCheck()
	verifrt.Observe("err", err != nil)
	verifrt.Observe("len", len(m))
	verifrt.Reach("returned")
}

func H_C26_rootReaderStr() {
	n := verifrt.Concretize(verifrt.IntRange("n", 0, 11))
	r := binaryReader{typ: "x", b: verifrt.Bytes("b", n)}
	s := r.str()
	verifrt.Observe("len", len(s))
	verifrt.Observe("err", r.err != nil)
	verifrt.Assert(len(s) <= n, "string lies inside the input")
	verifrt.Reach("returned")
}

// roundtrip, one entry: id, flag, time at full width (incl. negative IndexTimeUnix), up to 2 branches.
func H_C26_reposMapRoundtrip1() {
	m := ReposMap{}
	id := verifrt.U32("id")
	e := MinimalRepoListEntry{HasSymbols: verifrt.Bool("sym"), IndexTimeUnix: verifrt.I64("time")}
	nb := verifrt.Concretize(verifrt.IntRange("nb", 0, 2))
	for j := 0; j < nb; j++ {
		ln := verifrt.Concretize(verifrt.IntRange("ln", 0, 2))
		lv := verifrt.Concretize(verifrt.IntRange("lv", 0, 1))
		e.Branches = append(e.Branches, RepositoryBranch{Name: verifrt.String("name", ln), Version: verifrt.String("ver", lv)})
	}
	m[id] = e
	checkReposMapRoundtrip(m)
}

// roundtrip, two entries in any map order; ids/times confined to 1- and 2-byte varints plus
// negative times (10-byte varints), so the per-entry framing is exercised without 50x50 width cases.
func H_C26_reposMapRoundtrip2() {
	verifrt.MapOrderNondet(true)
	m := ReposMap{}
	for i := 0; i < 2; i++ {
		id := uint32(verifrt.U8("id")) * 3
		t := int64(verifrt.IntRange("time", -1, 200))
		e := MinimalRepoListEntry{HasSymbols: verifrt.Bool("sym"), IndexTimeUnix: t}
		nb := verifrt.Concretize(verifrt.IntRange("nb", 0, 1))
		for j := 0; j < nb; j++ {
			e.Branches = append(e.Branches, RepositoryBranch{Name: verifrt.String("name", 1), Version: verifrt.String("ver", 1)})
		}
		m[id] = e
	}
	checkReposMapRoundtrip(m)
}

func checkReposMapRoundtrip(m ReposMap) {
	enc, err := reposMapEncode(m)
	verifrt.Assert(err == nil, "encode succeeds")
	dec, err := reposMapDecode(enc)
	verifrt.Assert(err == nil, "decode of an encoding succeeds")
	verifrt.Assert(len(dec) == len(m), "same number of repositories")
	for id, e := range m {
		d, ok := dec[id]
		verifrt.Assert(ok, "repo id survives")
		verifrt.Assert(d.HasSymbols == e.HasSymbols, "HasSymbols survives")
		verifrt.Assert(d.IndexTimeUnix == e.IndexTimeUnix, "IndexTimeUnix survives")
		verifrt.Assert(len(d.Branches) == len(e.Branches), "branch count survives")
		for j := range e.Branches {
			verifrt.Assert(d.Branches[j].Name == e.Branches[j].Name, "branch name survives")
			verifrt.Assert(d.Branches[j].Version == e.Branches[j].Version, "branch version survives")
		}
	}
	verifrt.Observe("n", len(dec))
	verifrt.Reach("returned")
}
