//go:build verif

package query

import (
	verifrt "github.com/sourcegraph/zoekt/zz_verifrt"
)

// decodeTotal: every decoder on arbitrary bytes must return (value or error); no
// panic, and no allocation whose size is not bounded by the input length.

func H_C26_stringSetDecodeTotal() {
	n := verifrt.Concretize(verifrt.IntRange("n", 0, verifrt.Param("n", 7, 11)))
	b := verifrt.Bytes("b", n)
	verifrt.AllocBound(1 << 16)
	set, err := stringSetDecode(b)
	verifrt.AllocCheck()
	verifrt.Observe("err", err != nil)
	verifrt.Observe("len", len(set))
	verifrt.Reach("returned")
}

func H_C26_fileNameSetUnmarshalTotal() {
	n := verifrt.Concretize(verifrt.IntRange("n", 0, verifrt.Param("n", 7, 11)))
	b := verifrt.Bytes("b", n)
	verifrt.AllocBound(1 << 16)
	var q FileNameSet
	err := q.UnmarshalBinary(b)
	verifrt.AllocCheck()
	verifrt.Observe("err", err != nil)
	verifrt.Reach("returned")
}

func H_C26_branchesReposDecodeTotal() {
	n := verifrt.Concretize(verifrt.IntRange("n", 0, verifrt.Param("n", 7, 11)))
	b := verifrt.Bytes("b", n)
	verifrt.AllocBound(1 << 16)
	brs, err := branchesReposDecode(b)
	verifrt.AllocCheck()
	_ = err // depends on the (blackholed) roaring decoder: not observed
	verifrt.Observe("len", len(brs))
	verifrt.Reach("returned")
}

// reader kernels: a length prefix of up to 10 varint bytes (so values >= 2^63, negative as int)
func H_C26_readerStr() {
	n := verifrt.Concretize(verifrt.IntRange("n", 0, 11))
	r := binaryReader{b: verifrt.Bytes("b", n)}
	s := r.str()
	verifrt.Observe("len", len(s))
	verifrt.Observe("err", r.err != nil)
	verifrt.Assert(len(s) <= n, "string lies inside the input")
	verifrt.Reach("returned")
}

func H_C26_readerBitmap() {
	n := verifrt.Concretize(verifrt.IntRange("n", 0, 11))
	r := binaryReader{b: verifrt.Bytes("b", n)}
	r.bitmap()
	verifrt.Reach("returned")
}

// roundtrip: decode(encode(v)) == v for string sets with symbolic contents and any map order.
func H_C26_stringSetRoundtrip() {
	verifrt.MapOrderNondet(true)
	k := verifrt.Concretize(verifrt.IntRange("k", 0, 2))
	set := map[string]struct{}{}
	var keys []string
	for i := 0; i < k; i++ {
		l := verifrt.Concretize(verifrt.IntRange("l", 0, 2))
		s := verifrt.String("s", l)
		set[s] = struct{}{}
		keys = append(keys, s)
	}
	enc, err := stringSetEncode(set)
	verifrt.Assert(err == nil, "encode succeeds")
	dec, err := stringSetDecode(enc)
	verifrt.Assert(err == nil, "decode of an encoding succeeds")
	verifrt.Assert(len(dec) == len(set), "same cardinality")
	for _, s := range keys {
		_, ok := dec[s]
		verifrt.Assert(ok, "every key survives the round trip")
	}
	verifrt.Observe("n", len(dec))
	verifrt.Reach("returned")
}

func H_C26_twin() {
	H_C26_stringSetRoundtrip()
	verifrt.Assert(false, "twin")
}
