//go:build verif

package main

import (
	"sort"
	"strings"
	"time"

	"github.com/sourcegraph/zoekt/index"
	verifrt "github.com/sourcegraph/zoekt/zz_verifrt"
)

// The real cleanup (with getShards, getTombstonedRepos, removeAll, moveAll, consistentRepoName,
// maybeSetTombstone and index.SetTombstone/UnsetTombstone underneath) runs against the environment
// model on an index directory whose content is symbolic: two repositories in simple shards, each
// absent / indexed / in the trash (old, fresh, exactly 24 hours old or with a future timestamp), a compound shard holding
// two more repositories with symbolic tombstones, a stray temporary file; the assigned set and the
// shard-merging switch are symbolic.

const c32Now = 1_700_000_000

func c32Where(repo string) (inIndex, inTrash bool) {
	for _, v := range index.VerifVisibleRepos("/idx") {
		if strings.HasPrefix(v, repo+"@") {
			inIndex = true
		}
	}
	for _, v := range index.VerifVisibleRepos("/idx/.trash") {
		if strings.HasPrefix(v, repo+"@") {
			inTrash = true
		}
	}
	return
}

func c32Snapshot() string {
	var parts []string
	for _, p := range verifrt.FSList() {
		parts = append(parts, p)
	}
	sort.Strings(parts)
	return strings.Join(parts, ";") + " || " + strings.Join(index.VerifVisibleRepos("/idx"), ";")
}

func H_C32_cleanup() {
	verifrt.ClockConcrete()
	verifrt.FSReset()
	verifrt.FSMkdir("/idx")
	now := time.Unix(c32Now, 0)
	// repositories 1 and 2: simple shards
	var loc [2]int // 0 absent, 1 index, 2 trash old, 3 trash fresh, 4 trash future, 5 trash exactly 24 h old (not yet older than 24 h)
	var data [2][]byte
	for i := 0; i < 2; i++ {
		name := "r" + string(rune('1'+i))
		data[i] = index.VerifSimpleShardBytes(uint32(i+1), name, []string{"a.go"}, []string{"package " + name + "\n"})
		loc[i] = verifrt.Concretize(verifrt.IntRange("location", 0, 5))
		file := name + "_v16.00000.zoekt"
		switch loc[i] {
		case 1:
			verifrt.FSPut("/idx/"+file, data[i])
			verifrt.FS["/idx/"+file].MTime = c32Now - 3600
		case 2, 3, 4, 5:
			verifrt.FSMkdir("/idx/.trash")
			verifrt.FSPut("/idx/.trash/"+file, data[i])
			verifrt.FS["/idx/.trash/"+file].MTime = []int64{c32Now - 25*3600, c32Now - 3600, c32Now + 3600, c32Now - 24*3600}[loc[i]-2]
		}
	}
	// repositories 3 and 4: one compound shard, possibly with tombstones
	haveCompound := verifrt.Bool("compound")
	const cpath = "/idx/compound-x_v17.00000.zoekt"
	var tomb [2]bool
	if haveCompound {
		s3 := index.VerifSimpleShardBytes(3, "r3", []string{"c.go"}, []string{"package r3\n"})
		s4 := index.VerifSimpleShardBytes(4, "r4", []string{"d.go"}, []string{"package r4\n"})
		verifrt.FSPut(cpath, index.VerifCompoundShardBytes(s3, s4))
		for i := 0; i < 2; i++ {
			tomb[i] = verifrt.Bool("tombstoned")
			if tomb[i] {
				verifrt.Assume(index.SetTombstone(cpath, uint32(3+i)) == nil)
			}
		}
	}
	// a renamed repository: id 3 is also alive in a simple shard under another name (its shards
	// disagree on the name; the property lets cleanup remove such a repository, but not its
	// neighbours in the compound shard)
	renamed := haveCompound && !tomb[0] && verifrt.Bool("renamedRepo3")
	if renamed {
		verifrt.FSPut("/idx/r3new_v16.00000.zoekt", index.VerifSimpleShardBytes(3, "r3-renamed", []string{"c.go"}, []string{"package r3\n"}))
	}
	verifrt.FSPut("/idx/r9_v16.00000.zoekt.123.tmp", []byte("partial"))
	var assigned []uint32
	var isAssigned [5]bool
	for id := 1; id <= 4; id++ {
		if verifrt.Bool("assigned") {
			assigned = append(assigned, uint32(id))
			isAssigned[id] = true
		}
	}
	merging := verifrt.Bool("shardMerging")
	verifrt.FSMutations, verifrt.FSLog = 0, nil

	cleanup("/idx", assigned, now, merging)

	verifrt.Debug("file operations || state", strings.Join(verifrt.FSLog, ";")+" || "+c32Snapshot())
	for i := 0; i < 2; i++ {
		name := "r" + string(rune('1'+i))
		inIndex, inTrash := c32Where(name)
		file := name + "_v16.00000.zoekt"
		if isAssigned[i+1] {
			if loc[i] == 1 {
				verifrt.Assert(inIndex && string(verifrt.FSData("/idx/"+file)) == string(data[i]), "the shards of an assigned repository stay in the index, untouched")
			}
			if loc[i] >= 3 {
				verifrt.Assert(inIndex && !inTrash, "an assigned repository found in the trash is restored to the index")
			}
			if loc[i] == 2 {
				// older than 24 hours: the property allows deleting it; restoring it is fine too
				verifrt.Assert(!inTrash, "an expired trashed shard of an assigned repository is restored or deleted, not left in the trash")
			}
		} else {
			verifrt.Assert(!inIndex, "an unassigned repository is no longer searchable")
			if loc[i] == 1 || loc[i] >= 3 {
				verifrt.Assert(inTrash, "an unassigned repository is trashed, and a trashed shard younger than 24 hours is kept")
			}
			if loc[i] == 2 {
				verifrt.Assert(!inTrash, "a trashed shard older than 24 hours is deleted")
			}
		}
	}
	if haveCompound {
		for i := 0; i < 2; i++ {
			name := "r" + string(rune('3'+i))
			inIndex, _ := c32Where(name)
			if renamed && i == 0 {
				continue // shards of repository 3 disagree on its name: cleanup may remove it
			}
			if isAssigned[3+i] {
				mode := " (shard merging on)"
				if !merging {
					mode = " (shard merging off)"
				}
				verifrt.Assert(inIndex, "an assigned repository in a compound shard stays (or becomes again) searchable"+mode)
			} else {
				verifrt.Assert(!inIndex, "an unassigned repository in a compound shard is no longer searchable")
			}
		}
	}
	verifrt.Assert(!verifrt.FSExists("/idx/r9_v16.00000.zoekt.123.tmp"), "stray temporary files are removed")
	// a second cleanup with the same assignment changes nothing
	before := c32Snapshot()
	cleanup("/idx", assigned, now, merging)
	if !renamed {
		// (a renamed repository is first removed, then - being assigned - un-tombstoned again by the
		// next run; the property does not ask for a fixed point there)
		verifrt.Assert(c32Snapshot() == before, "a second cleanup with the same assignment changes nothing")
	}
	if haveCompound && merging && isAssigned[4] {
		in4, _ := c32Where("r4")
		verifrt.Assert(in4, "over repeated cleanups an assigned repository in a compound shard stays searchable")
	}
	verifrt.Observe("assigned", len(assigned))
	verifrt.Reach("returned")
}

func H_C32_twin() {
	verifrt.FSReset()
	verifrt.Assert(len(index.VerifVisibleRepos("/idx")) == 77, "twin")
}
