//go:build verif

package index

import (
	"context"

	"github.com/sourcegraph/zoekt"
	"github.com/sourcegraph/zoekt/query"
	verifrt "github.com/sourcegraph/zoekt/zz_verifrt"
)

// Style P: the real shard over the fixed corpus of C01, a symbolic content substring query, line
// and chunk mode. Every reported range is a real occurrence of the pattern; ranges are ordered and
// do not overlap; and they are complete: exactly the occurrences a left-to-right non-overlapping
// scan of the file finds (no occurrence starts in a gap between reported ranges).

func verifOccursAt(text string, pos int, pat []byte, caseSensitive bool) bool {
	if pos < 0 || pos+len(pat) > len(text) {
		return false
	}
	all := true
	for j := range pat {
		if caseSensitive {
			all = verifrt.And(all, text[pos+j] == pat[j])
		} else {
			all = verifrt.And(all, verifLowerASCII(text[pos+j]) == verifLowerASCII(pat[j]))
		}
	}
	return all
}

func verifC02Pattern() ([]byte, bool) {
	n := verifrt.Concretize(verifrt.IntRange("patlen", 3, verifrt.Param("patlen", 3, 4)))
	pat := verifrt.Bytes("pat", n)
	for _, c := range pat {
		ok := verifrt.Or(c == 'n', verifrt.Or(c == 'e', verifrt.Or(c == 'd', verifrt.Or(c == 'l', verifrt.Or(c == 'N', verifrt.Or(c == 'E', c == 'q'))))))
		ok = verifrt.Or(ok, verifrt.Or(c == 'f', verifrt.Or(c == 'o', verifrt.Or(c == 'b', verifrt.Or(c == 'a', verifrt.Or(c == 'r', verifrt.Or(c == 'F', verifrt.Or(c == ' ', c == '\n'))))))))
		verifrt.Assume(ok)
	}
	return pat, verifrt.Bool("case")
}

func verifC02Content(name string) string {
	for _, d := range verifC01Corpus {
		if d.name == name {
			return d.content
		}
	}
	return ""
}

// verifCheckRanges: starts/ends (byte offsets, in result order) against the content.
func verifCheckRanges(content string, starts, ends []int, pat []byte, caseSensitive bool) {
	prevEnd := 0
	for i := range starts {
		verifrt.Assert(ends[i]-starts[i] == len(pat), "a reported range has the pattern's length")
		verifrt.Assert(starts[i] >= prevEnd, "reported ranges are ordered and do not overlap")
		verifrt.Assert(verifOccursAt(content, starts[i], pat, caseSensitive), "a reported range is a real occurrence of the pattern")
		for p := prevEnd; p < starts[i]; p++ {
			verifrt.Assert(!verifOccursAt(content, p, pat, caseSensitive), "no occurrence is missed between reported ranges")
		}
		prevEnd = ends[i]
	}
	for p := prevEnd; p+len(pat) <= len(content); p++ {
		verifrt.Assert(!verifOccursAt(content, p, pat, caseSensitive), "no occurrence is missed after the last reported range")
	}
}

func H_C02_ranges() {
	verifrt.ClockConcrete()
	d := verifSimpleShard(verifRepo(1, "r1", "main"), verifC01Corpus)
	pat, caseSensitive := verifC02Pattern()
	chunks := verifrt.Bool("chunks")
	if !chunks {
		// line mode reports a match that spans lines as one piece per line (documented); the
		// whole-range comparison below is for single-line patterns there
		for _, c := range pat {
			verifrt.Assume(c != '\n')
		}
	}
	q := &query.Substring{Pattern: string(pat), CaseSensitive: caseSensitive, Content: true}
	res, err := d.Search(context.Background(), q, &zoekt.SearchOptions{ChunkMatches: chunks})
	verifrt.Assert(err == nil, "search succeeds")
	verifrt.Observe("nfiles", len(res.Files))
	for _, f := range res.Files {
		content := verifC02Content(f.FileName)
		var starts, ends []int
		if chunks {
			verifrt.Assert(len(f.ChunkMatches) > 0 && len(f.LineMatches) == 0, "chunk mode returns chunk matches")
			for _, cm := range f.ChunkMatches {
				verifrt.Assert(!cm.FileName, "content query yields content matches")
				for _, r := range cm.Ranges {
					starts = append(starts, int(r.Start.ByteOffset))
					ends = append(ends, int(r.End.ByteOffset))
				}
			}
		} else {
			verifrt.Assert(len(f.LineMatches) > 0 && len(f.ChunkMatches) == 0, "line mode returns line matches")
			// line matches are ordered by score; collect fragments and sort by offset
			for _, lm := range f.LineMatches {
				verifrt.Assert(!lm.FileName, "content query yields content matches")
				for _, fr := range lm.LineFragments {
					starts = append(starts, int(fr.Offset))
					ends = append(ends, int(fr.Offset)+fr.MatchLength)
				}
			}
			for i := 1; i < len(starts); i++ {
				for j := i; j > 0 && starts[j-1] > starts[j]; j-- {
					starts[j-1], starts[j] = starts[j], starts[j-1]
					ends[j-1], ends[j] = ends[j], ends[j-1]
				}
			}
		}
		if chunks {
			// chunks are ordered by score too; ranges inside a chunk are in file order
			for i := 1; i < len(starts); i++ {
				for j := i; j > 0 && starts[j-1] > starts[j]; j-- {
					starts[j-1], starts[j] = starts[j], starts[j-1]
					ends[j-1], ends[j] = ends[j], ends[j-1]
				}
			}
		}
		verifCheckRanges(content, starts, ends, pat, caseSensitive)
	}
	verifrt.Reach("returned")
}

func H_C02_twin() {
	verifrt.ClockConcrete()
	d := verifSimpleShard(verifRepo(1, "r1", "main"), verifC01Corpus)
	res, _ := d.Search(context.Background(), &query.Substring{Pattern: "needle"}, &zoekt.SearchOptions{})
	verifrt.Assert(len(res.Files) == 77, "twin")
}

// H_C02_gather (kernel): the overlap filter of gatherMatches on symbolic candidates of up to three
// atoms under an or (each atom's candidates sorted and disjoint, as its producer guarantees; offsets
// and sizes symbolic; file-name flag per atom symbolic). The result is sorted by (file-name first,
// offset), pairwise non-overlapping within a kind, consists of input candidates only, and is
// complete in the greedy sense: a dropped candidate overlaps a kept one of its kind.
func H_C02_gather() {
	natoms := verifrt.Concretize(verifrt.IntRange("atoms", 1, 3))
	d := &indexData{}
	or := &orMatchTree{}
	known := map[matchTree]bool{}
	var all []*candidateMatch
	for a := 0; a < natoms; a++ {
		sm := &substrMatchTree{query: &query.Substring{Pattern: "x"}, fileName: verifrt.Bool("fileName")}
		n := verifrt.Concretize(verifrt.IntRange("cands", 1, verifrt.Param("candsPerAtom", 2, 2)))
		prevEnd := uint32(0)
		for i := 0; i < n; i++ {
			off, sz := verifrt.U32("off"), verifrt.U32("size")
			verifrt.Assume(off <= 40 && sz >= 1 && sz <= 12 && off >= prevEnd)
			prevEnd = off + sz
			c := &candidateMatch{byteOffset: off, byteMatchSz: sz, fileName: sm.fileName}
			sm.current = append(sm.current, c)
			all = append(all, c)
		}
		or.children = append(or.children, sm)
		known[sm] = true
	}
	known[or] = true
	res := d.gatherMatches(0, or, known)
	verifrt.Observe("kept", len(res))
	verifrt.Assert(len(res) >= 1 && len(res) <= len(all), "the result is a non-empty selection of the candidates")
	kept := map[*candidateMatch]bool{}
	for i, c := range res {
		isInput := false
		for _, in := range all {
			if in == c {
				isInput = true
			}
		}
		verifrt.Assert(isInput, "every reported match is a candidate of some atom")
		verifrt.Assert(!kept[c], "no candidate is reported twice")
		kept[c] = true
		if i > 0 {
			p := res[i-1]
			if p.fileName == c.fileName {
				verifrt.Assert(p.byteOffset <= c.byteOffset, "matches are ordered by offset")
			} else {
				verifrt.Assert(p.fileName && !c.fileName, "file-name matches come first")
			}
		}
		for j := 0; j < i; j++ {
			p := res[j]
			if p.fileName == c.fileName {
				verifrt.Assert(verifrt.Or(p.byteOffset+p.byteMatchSz <= c.byteOffset, c.byteOffset+c.byteMatchSz <= p.byteOffset), "reported matches of one kind never overlap")
			}
		}
	}
	for _, in := range all {
		if kept[in] {
			continue
		}
		overlapsKept := false
		for _, c := range res {
			if c.fileName == in.fileName {
				overlapsKept = verifrt.Or(overlapsKept, verifrt.And(c.byteOffset < in.byteOffset+in.byteMatchSz, in.byteOffset < c.byteOffset+c.byteMatchSz))
			}
		}
		verifrt.Assert(overlapsKept, "a candidate is dropped only because it overlaps a reported match")
	}
	verifrt.Reach("returned")
}
