//go:build verif

package query

import (
	verifrt "github.com/sourcegraph/zoekt/zz_verifrt"
)

// the bytes the tokenizer and the atom parsers distinguish, plus one letter, one non-ASCII
// lead byte and one continuation byte (so invalid UTF-8 is inside the bound)
var c07Alphabet = []byte{'a', 'f', ':', '(', ')', '"', '\\', ' ', '-', '|', '.', '*', '[', 0xc3, 0xa9, 'o', 'r'}

func c07Input(n int) string {
	b := verifrt.Bytes("q", n)
	for _, c := range b {
		in := false
		for _, a := range c07Alphabet {
			in = verifrt.Or(in, c == a)
		}
		verifrt.Assume(in)
	}
	return string(b)
}

// Parse of any string yields a query or an error, never a panic; what it yields converts
// to the wire format and back without panicking.
func H_C07_parseTotal() {
	n := verifrt.Concretize(verifrt.IntRange("n", 0, verifrt.Param("n", 3, 4)))
	s := c07Input(n)
	q, err := Parse(s)
	verifrt.Observe("err", err != nil)
	if err == nil {
		verifrt.Assert(q != nil, "Parse yields a query or an error")
		p := QToProto(q)
		verifrt.Assert(p != nil, "a parsed query converts to the wire format")
		q2, err2 := QFromProto(p)
		verifrt.Assert(err2 == nil && q2 != nil, "and decodes again")
	}
	verifrt.Reach("returned")
}

func H_C07_twin() {
	H_C07_parseTotal()
	verifrt.Assert(false, "twin")
}
