//go:build verif

package query

import (
	verifrt "github.com/sourcegraph/zoekt/zz_verifrt"
)

// the bytes the tokenizer and the atom parsers distinguish, plus one letter, one non-ASCII
// lead byte and one continuation byte (so invalid UTF-8 is inside the bound)
var c07Alphabet = []byte{'a', 'f', ':', '(', ')', '"', '\\', ' ', '-', '|', '.', '*', '[', 0xc3, 0xa9, 'o', 'r'}

func c07Input(n int) string {
	b := verifrt.Bytes("q", n)
	for _, c := range b {
		in := false
		for _, a := range c07Alphabet {
			in = verifrt.Or(in, c == a)
		}
		verifrt.Assume(in)
	}
	return string(b)
}

// Parse of any string yields a query or an error, never a panic; what it yields converts
// to the wire format and back without panicking.
func H_C07_parseTotal() {
	n := verifrt.Concretize(verifrt.IntRange("n", 0, verifrt.Param("n", 3, 4)))
	s := c07Input(n)
	q, err := Parse(s)
	verifrt.Observe("err", err != nil)
	if err == nil {
		verifrt.Assert(q != nil, "Parse yields a query or an error")
		p := QToProto(q)
		verifrt.Assert(p != nil, "a parsed query converts to the wire format")
		q2, err2 := QFromProto(p)
		verifrt.Assert(err2 == nil && q2 != nil, "and decodes again")
	}
	verifrt.Reach("returned")
}

func H_C07_twin() {
	H_C07_parseTotal()
	verifrt.Assert(false, "twin")
}

// token-level inputs: the string is a concatenation of up to 4 (quick) / 5 (thorough) tokens from the
// documented vocabulary (field prefixes, case/type directives, grouping, negation, or, quoted
// atoms); which token stands where is a symbolic choice (case split), the pattern byte inside the
// atoms is one of five (letter, capital, regexp metacharacters), also a case split. Whatever Parse returns converts to the wire format, decodes again,
// prints, and is walked by query.Map without panicking; no private parser node survives.
var c07Tokens = []string{"@", "f:@", "-", "(", ")", " or ", "case:yes ", "case:no ", "type:file ", "type:repo ", "\"@ @\"", "r:@ ", "sym:@", "lang:go ", "b:@ ", "content:@"}

func H_C07_parseTokens() {
	// two regimes: the full vocabulary with five pattern bytes for short sequences; the structural
	// subset (atom, grouping, negation, or, one case and one type directive, one field) with the
	// pattern byte 'a' for longer ones
	vocab, maxTokens := c07Tokens, verifrt.Param("tokensFull", 3, 4)
	npat := 4
	if verifrt.Bool("structural") {
		vocab, maxTokens, npat = []string{"@", "(", ")", "-", " or ", "case:yes ", "type:file ", "f:@"}, verifrt.Param("tokensStructural", 5, 6), 0
	}
	nt := verifrt.Concretize(verifrt.IntRange("tokens", 1, maxTokens))
	pat := []byte{'a', 'A', '.', '\\', '['}[verifrt.Concretize(verifrt.IntRange("patternByte", 0, npat))]
	var sb []byte
	for i := 0; i < nt; i++ {
		t := vocab[verifrt.Concretize(verifrt.IntRange("token", 0, len(vocab)-1))]
		for j := 0; j < len(t); j++ {
			if t[j] == '@' {
				sb = append(sb, pat)
			} else {
				sb = append(sb, t[j])
			}
		}
		sb = append(sb, ' ')
	}
	q, err := Parse(string(sb))
	verifrt.Observe("err", err != nil)
	if err == nil {
		verifrt.Assert(q != nil, "Parse yields a query or an error")
		_ = q.String()
		Map(q, func(in Q) Q { return in })
		p := QToProto(q)
		verifrt.Assert(p != nil, "a parsed query converts to the wire format")
		q2, err2 := QFromProto(p)
		verifrt.Assert(err2 == nil && q2 != nil, "and decodes again")
	}
	verifrt.Reach("returned")
}

// c07Lang replaces languages.GetLanguageByNameOrAlias under the engine (go-enry's alias table is a
// dependency whose initialisation alone costs millions of interpreter steps): "go" is known.
func c07Lang(nameOrAlias string) (string, bool) {
	if nameOrAlias == "go" {
		return "Go", true
	}
	return "", false
}

// H_C07_regexpTokens: one regexp atom assembled from up to 5 (quick) / 6 (thorough) symbolic tokens
// out of {a, (, ), *, +, ?} [thorough: also |]: whatever query.Parse accepts prints, converts to
// the wire format and decodes again without an error (the printed regexp is what the receiving side
// and the match tree compile), and what it rejects is rejected with an error, not a panic.
func H_C07_regexpTokens() {
	vocab := []string{"a", "(", ")", "*", "+", "?", "|"}
	nv := verifrt.Param("regexpVocabulary", 6, 7)
	nt := verifrt.Concretize(verifrt.IntRange("tokens", 1, verifrt.Param("regexpTokens", 5, 6)))
	var sb []byte
	for i := 0; i < nt; i++ {
		sb = append(sb, vocab[verifrt.Concretize(verifrt.IntRange("token", 0, nv-1))]...)
	}
	q, err := Parse(string(sb))
	verifrt.Observe("err", err != nil)
	if err == nil {
		verifrt.Assert(q != nil, "Parse yields a query or an error")
		_ = q.String()
		p := QToProto(q)
		verifrt.Assert(p != nil, "a parsed query converts to the wire format")
		q2, err2 := QFromProto(p)
		verifrt.Assert(err2 == nil && q2 != nil, "a parsed regexp query decodes again on the receiving side")
		// (the decoded regexp is re-parsed from its printed form and may be a simplified but equivalent
		// tree, e.g. "(?:)|(?:)" arrives as "(?:)": textual identity is not required)
	}
	verifrt.Reach("returned")
}
