//go:build verif

package main

import (
	"strings"

	"github.com/sourcegraph/zoekt/index"
	verifrt "github.com/sourcegraph/zoekt/zz_verifrt"
)

func c35RepoCounts(vis []string) map[string]int {
	m := map[string]int{}
	for _, v := range vis {
		m[v[:strings.Index(v, "@")]]++
	}
	return m
}

// H_C35_merge: zoekt-merge-index merge over 2 simple shards (one optionally with a .meta sidecar, one
// optionally missing on disk), with the process killed at a symbolic mutating file operation or one
// operation failing. At whatever state results: no repository is visible to the loader in two
// shards, no unreadable shard is visible; and if merge returned without error, the compound shard
// is in place under the returned name, the inputs are gone and every input repository is visible once.
func H_C35_merge() {
	verifrt.ClockConcrete()
	verifrt.FSReset()
	s1 := index.VerifSimpleShardBytes(1, "r1", []string{"a.go"}, []string{"package a\n"})
	s2 := index.VerifSimpleShardBytes(2, "r2", []string{"b.go"}, []string{"package b\n"})
	names := []string{"/idx/r1_v16.00000.zoekt", "/idx/r2_v16.00000.zoekt"}
	verifrt.FSPut(names[0], s1)
	missing := verifrt.Bool("secondInputMissing")
	if !missing {
		verifrt.FSPut(names[1], s2)
	}
	if verifrt.Bool("sidecar") {
		// a sidecar as a delta build or a metadata update leaves it next to a simple shard
		repos, _, rerr := index.ReadMetadataPath(names[0])
		verifrt.Assume(rerr == nil && len(repos) == 1)
		tmp, final, merr := index.JsonMarshalRepoMetaTemp(names[0], repos[0])
		verifrt.Assume(merr == nil && verifrt.OsRename(tmp, final) == nil)
	}
	verifrt.FSMutations = 0
	verifrt.FSFaults = verifrt.Concretize(verifrt.IntRange("faults", 0, 1))
	verifrt.FSCrashAt = verifrt.IntRange("crashAt", -1, 12)
	var dst string
	var err error
	crashed := verifrt.RunToCrash(func() { dst, err = merge("/idx", names) })
	vis := index.VerifVisibleRepos("/idx")
	counts := c35RepoCounts(vis)
	verifrt.Observe("visible", len(vis))
	verifrt.Debug("file operations || visible", strings.Join(verifrt.FSLog, ";")+" || "+strings.Join(vis, ";"))
	verifrt.Assert(counts["UNREADABLE"] == 0, "every shard the loader can see is readable")
	verifrt.Assert(counts["r1"] <= 1 && counts["r2"] <= 1, "no repository is ever visible in two shards")
	if !crashed && err == nil {
		verifrt.Assert(dst != "" && verifrt.FSExists(dst), "merge reports success only when the compound shard is in place")
		verifrt.Assert(!verifrt.FSExists(names[0]) && !verifrt.FSExists(names[1]) && !verifrt.FSExists(names[0]+".meta"), "after a successful merge the input shards are gone")
		verifrt.Assert(counts["r1"] == 1 && counts["r2"] == 1, "after a successful merge every input repository is visible exactly once")
	}
	if !crashed && err != nil && verifrt.FSFaults == 0 && verifrt.FSMutations == 0 {
		verifrt.Assert(counts["r1"] == 1, "a merge that fails before touching anything leaves the index as it was")
	}
	verifrt.Reach("returned")
}

// H_C35_explode: index.Explode on a compound shard of two repositories under the same crash / failure
// model: never a repository visible twice; if it returns without error the compound shard is gone and
// every repository is visible in its own shard.
func H_C35_explode() {
	verifrt.ClockConcrete()
	verifrt.FSReset()
	s1 := index.VerifSimpleShardBytes(1, "r1", []string{"a.go"}, []string{"package a\n"})
	s2 := index.VerifSimpleShardBytes(2, "r2", []string{"b.go"}, []string{"package b\n"})
	const path = "/idx/compound-x_v17.00000.zoekt"
	verifrt.FSPut(path, index.VerifCompoundShardBytes(s1, s2))
	verifrt.FSFaults = verifrt.Concretize(verifrt.IntRange("faults", 0, 1))
	verifrt.FSCrashAt = verifrt.IntRange("crashAt", -1, 16)
	var err error
	crashed := verifrt.RunToCrash(func() { err = explodeCmd(path) })
	vis := index.VerifVisibleRepos("/idx")
	counts := c35RepoCounts(vis)
	verifrt.Observe("visible", len(vis))
	verifrt.Debug("file operations || visible", strings.Join(verifrt.FSLog, ";")+" || "+strings.Join(vis, ";"))
	verifrt.Assert(counts["UNREADABLE"] == 0, "every shard the loader can see is readable")
	verifrt.Assert(counts["r1"] <= 1 && counts["r2"] <= 1, "no repository is ever visible in two shards")
	if !crashed && err == nil {
		verifrt.Assert(!verifrt.FSExists(path), "explode reports success only when the compound shard is gone")
		verifrt.Assert(counts["r1"] == 1 && counts["r2"] == 1, "explode reports success only when every repository is visible in its own shard")
	}
	verifrt.Reach("returned")
}

func H_C35_twin() {
	verifrt.ClockConcrete()
	verifrt.FSReset()
	s1 := index.VerifSimpleShardBytes(1, "r1", []string{"a.go"}, []string{"package a\n"})
	verifrt.FSPut("/idx/r1_v16.00000.zoekt", s1)
	verifrt.Assert(len(index.VerifVisibleRepos("/idx")) == 77, "twin")
}
