//go:build verif

package main

import (
	"bytes"
	"sort"
	"strings"

	"github.com/sourcegraph/zoekt/index"
	verifrt "github.com/sourcegraph/zoekt/zz_verifrt"
)

// zoekt-local-sync's removal half against the environment model: an index directory of up to three
// single-repository shards whose (name, source) are symbolic choices (one optionally with a .meta
// sidecar), a symbolic set of desired repositories resp. remove selectors. readInventory,
// planPrune, applyRemovals, removeShard, removeRepositories, recordsFromShards, selectRecords and
// normalizeSource are the real code.

var c33Names = []string{"a", "b"}
var c33Sources = []string{"/src/a", "/src/b", "/src/a/.git"}

// c33Setup: builds the index directory; returns the shard paths with their (name, normalized source).
func c33Setup() (paths, names, sources []string) {
	verifrt.ClockConcrete()
	verifrt.FSReset()
	verifrt.FSMkdir("/idx")
	n := verifrt.Concretize(verifrt.IntRange("shards", 0, verifrt.Param("shards", 2, 3)))
	for i := 0; i < n; i++ {
		name := c33Names[verifrt.Concretize(verifrt.IntRange("name", 0, len(c33Names)-1))]
		source := c33Sources[verifrt.Concretize(verifrt.IntRange("source", 0, len(c33Sources)-1))]
		p := "/idx/repo" + string(rune('0'+i)) + "_v16.00000.zoekt"
		verifrt.FSPut(p, index.VerifShardWithSource(uint32(i+1), name, source))
		paths = append(paths, p)
		names = append(names, name)
		sources = append(sources, strings.TrimSuffix(source, "/.git"))
	}
	if n > 0 && verifrt.Bool("sidecar") {
		repos, _, err := index.ReadMetadataPath(paths[0])
		verifrt.Assume(err == nil && len(repos) == 1)
		tmp, final, merr := index.JsonMarshalRepoMetaTemp(paths[0], repos[0])
		verifrt.Assume(merr == nil && verifrt.OsRename(tmp, final) == nil)
	}
	verifrt.FSMutations, verifrt.FSLog = 0, nil
	return
}

func c33Snapshot() string { return strings.Join(verifrt.FSList(), ";") }

func c33Announced(out string, verb string) []string {
	var ps []string
	for _, line := range strings.Split(out, "\n") {
		if strings.HasPrefix(line, verb+" ") {
			rest := line[len(verb)+1:]
			if i := strings.Index(rest, " ("); i >= 0 {
				ps = append(ps, rest[:i])
			}
		}
	}
	sort.Strings(ps)
	return ps
}

func c33Desired() []repositorySpec {
	var desired []repositorySpec
	for i, n := 0, verifrt.Concretize(verifrt.IntRange("desired", 0, 2)); i < n; i++ {
		desired = append(desired, repositorySpec{
			Name:   c33Names[verifrt.Concretize(verifrt.IntRange("desiredName", 0, len(c33Names)-1))],
			Source: c33Sources[verifrt.Concretize(verifrt.IntRange("desiredSource", 0, 1))]})
	}
	return desired
}

// H_C33_syncPreview: without -f the prune step changes nothing and announces exactly the shards
// that the same step with -f removes from the same state.
func H_C33_syncPreview() {
	paths, _, _ := c33Setup()
	desired := c33Desired()
	before := c33Snapshot()
	shards, err := readInventory("/idx")
	verifrt.Assert(err == nil, "the inventory of well-formed shards is readable")
	var preview bytes.Buffer
	perr := applyRemovals(planPrune(desired, shards), true, &preview)
	verifrt.Assert(perr == nil, "a preview cannot fail to remove anything")
	verifrt.Assert(c33Snapshot() == before && verifrt.FSMutations == 0, "without -f nothing in the index directory is created, changed or deleted")
	announced := c33Announced(preview.String(), "Would remove")
	// the same state, with -f
	shards2, _ := readInventory("/idx")
	var applied bytes.Buffer
	aerr := applyRemovals(planPrune(desired, shards2), false, &applied)
	verifrt.Assert(aerr == nil, "removal succeeds when no file operation fails")
	var removed []string
	for _, p := range paths {
		if !verifrt.FSExists(p) {
			removed = append(removed, p)
			verifrt.Assert(!verifrt.FSExists(p+".meta"), "a removed shard's sidecar is removed with it")
		}
	}
	sort.Strings(removed)
	verifrt.Assert(strings.Join(announced, ",") == strings.Join(removed, ","), "the removals announced without -f are exactly those performed with -f")
	verifrt.Observe("removed", len(removed))
	verifrt.Reach("returned")
}

// H_C33_removePreview: the same for `remove <selector>`.
func H_C33_removePreview() {
	paths, _, _ := c33Setup()
	selector := []string{"a", "b", "/src/a", "/src/b", "zzz"}[verifrt.Concretize(verifrt.IntRange("selector", 0, 4))]
	before := c33Snapshot()
	var preview bytes.Buffer
	perr := removeRepositories("/idx", []string{selector}, true, &preview)
	verifrt.Assert(c33Snapshot() == before && verifrt.FSMutations == 0, "remove without -f changes nothing")
	announced := c33Announced(preview.String(), "Would remove")
	var applied bytes.Buffer
	aerr := removeRepositories("/idx", []string{selector}, false, &applied)
	verifrt.Assert((perr == nil) == (aerr == nil), "a selector is accepted or rejected alike with and without -f")
	var removed []string
	for _, p := range paths {
		if !verifrt.FSExists(p) {
			removed = append(removed, p)
		}
	}
	sort.Strings(removed)
	if aerr != nil {
		verifrt.Assert(len(removed) == 0 && c33Snapshot() == before, "a rejected selector removes nothing")
	}
	verifrt.Assert(strings.Join(announced, ",") == strings.Join(removed, ","), "remove announces without -f exactly what it deletes with -f")
	verifrt.Observe("removed", len(removed))
	verifrt.Reach("returned")
}

func H_C33_twin() {
	c33Setup()
	verifrt.Assert(c33Snapshot() == "never", "twin")
}
