//go:build verif

package index

import (
	"github.com/sourcegraph/zoekt"
	"github.com/sourcegraph/zoekt/internal/ctags"
	verifrt "github.com/sourcegraph/zoekt/zz_verifrt"
)

// An index is written for option set o1 (through the real newShardBuilder, which stamps the option
// hash into the shard, the real writer, and the environment model); then IndexState is asked with
// option set o2 that differs from o1 in exactly one field (or in none). Which field differs, and
// the base values of all fields, are symbolic choices (case split - option values reach the hash
// through fmt, which the engine only runs on concrete data).

func verifC38Options(pick func(name string) int) Options {
	o := Options{
		IndexDir: "/idx",
		RepositoryDescription: zoekt.Repository{ID: 7, Name: "repo", URL: []string{"https://h/repo", "https://other/repo"}[pick("url")],
			Branches:  []zoekt.RepositoryBranch{{Name: "main", Version: []string{"v1", "v2"}[pick("version")]}},
			RawConfig: map[string]string{"public": []string{"1", "0"}[pick("rawconfig")]}},
		SizeMax:          []int{1000, 2000}[pick("SizeMax")],
		TrigramMax:       []int{100, 200}[pick("TrigramMax")],
		ShardMax:         []int{1 << 20, 2 << 20}[pick("ShardMax")],
		Parallelism:      []int{1, 4}[pick("Parallelism")],
		DisableCTags:     pick("DisableCTags") == 1,
		CTagsMustSucceed: pick("CTagsMustSucceed") == 1,
		CTagsPath:        []string{"/bin/ctags", "/opt/ctags"}[pick("CTagsPath")],
		ScipCTagsPath:    []string{"", "/bin/scip-ctags"}[pick("ScipCTagsPath")],
	}
	if pick("LargeFiles") == 1 {
		o.LargeFiles = []string{"*.md"}
	}
	if pick("LargeFilesOrder") == 1 {
		// the last matching pattern wins (IgnoreSizeMax), so the order of the patterns matters
		o.LargeFiles = append([]string{"!big.md"}, o.LargeFiles...)
	} else {
		o.LargeFiles = append(o.LargeFiles, "!big.md")
	}
	if pick("LanguageMap") == 1 {
		o.LanguageMap = ctags.LanguageMap{"go": ctags.ScipCTags}
	}
	if pick("secondBranch") == 1 {
		o.RepositoryDescription.Branches = append(o.RepositoryDescription.Branches, zoekt.RepositoryBranch{Name: "dev", Version: "d1"})
	}
	return o
}

var verifC38Fields = []string{"none", "SizeMax", "TrigramMax", "DisableCTags", "CTagsMustSucceed", "CTagsPath", "ScipCTagsPath", "LargeFiles", "LargeFilesOrder", "LanguageMap",
	"version", "secondBranch", "url", "rawconfig", "ShardMax", "Parallelism"}

func H_C38_indexState() {
	verifrt.ClockConcrete()
	verifrt.FSReset()
	base := map[string]int{}
	// the base configuration: a few fields are chosen symbolically, the others take their first value
	for _, f := range []string{"DisableCTags", "LargeFiles", "secondBranch", "SizeMax"} {
		base[f] = verifrt.Concretize(verifrt.IntRange("base:"+f, 0, 1))
	}
	o1 := verifC38Options(func(n string) int { return base[n] })
	diff := verifC38Fields[verifrt.Concretize(verifrt.IntRange("differingField", 0, len(verifC38Fields)-1))]
	// permuting the large-file patterns only changes something when there are two of them
	verifrt.Assume(!(diff == "LargeFilesOrder" && base["LargeFiles"] == 0))
	o2 := verifC38Options(func(n string) int {
		if n == diff {
			return 1 - base[n]
		}
		return base[n]
	})
	// the existing index, built with o1
	b := &Builder{opts: o1}
	sb, err := b.newShardBuilder()
	verifrt.Assume(err == nil)
	verifrt.Assume(sb.Add(Document{Name: "a.go", Content: []byte("package a\n"), Branches: []string{"main"}, Language: "Go", Category: FileCategoryDefault}) == nil)
	verifrt.FSPut(o1.shardName(0), verifWriteShard(sb, o1.shardName(0)).data)

	state, _ := o2.IndexState()
	skip := o2.IncrementalSkipIndexing()
	verifrt.Observe("state", string(state))
	verifrt.Assert(skip == (state == IndexStateEqual), "IncrementalSkipIndexing skips exactly when the state is 'equal'")
	switch diff {
	case "none":
		verifrt.Assert(state == IndexStateEqual, "an unchanged repository with unchanged options is up to date")
	case "SizeMax", "TrigramMax", "DisableCTags", "CTagsMustSucceed", "CTagsPath", "ScipCTagsPath", "LargeFiles", "LargeFilesOrder", "LanguageMap":
		verifrt.Assert(state != IndexStateEqual && state != IndexStateMeta, "changing the content-affecting option "+diff+" causes a re-index")
	case "version", "secondBranch":
		verifrt.Assert(state != IndexStateEqual && state != IndexStateMeta, "changing the indexed branches or their versions causes a re-index")
	case "url", "rawconfig":
		verifrt.Assert(state == IndexStateMeta, "a metadata-only change is applied without a re-index")
	case "ShardMax", "Parallelism":
		verifrt.Assert(state == IndexStateEqual, "options that do not change what is indexed do not force a re-index")
	}
	verifrt.Reach("returned")
}

func H_C38_twin() {
	verifrt.FSReset()
	o := verifC38Options(func(string) int { return 0 })
	st, _ := o.IndexState()
	verifrt.Assert(st == IndexStateEqual, "twin")
}
