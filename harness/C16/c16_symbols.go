//go:build verif

package index

import (
	"context"
	"fmt"
	"sort"

	"github.com/sourcegraph/zoekt"
	"github.com/sourcegraph/zoekt/query"
	verifrt "github.com/sourcegraph/zoekt/zz_verifrt"
)

// what a symbol search shows of a shard: "repo/file:start-end kind parent" per symbol match, sorted
func verifC16Symbols(d *indexData) []string {
	res, err := d.Search(context.Background(), &query.Symbol{Expr: &query.Substring{Pattern: "unc", Content: true, CaseSensitive: true}}, &zoekt.SearchOptions{ChunkMatches: true})
	if err != nil {
		panic(err)
	}
	var out []string
	for _, f := range res.Files {
		for _, cm := range f.ChunkMatches {
			for i, r := range cm.Ranges {
				kind, parent := "?", "?"
				if i < len(cm.SymbolInfo) && cm.SymbolInfo[i] != nil {
					kind, parent = cm.SymbolInfo[i].Kind, cm.SymbolInfo[i].Parent
				}
				out = append(out, fmt.Sprintf("%s/%s:%d-%d %s %s", f.Repository, f.FileName, r.Start.ByteOffset, r.End.ByteOffset, kind, parent))
			}
		}
	}
	sort.Strings(out)
	return out
}

func verifC16SameStrings(a, b []string) bool {
	if len(a) != len(b) {
		return false
	}
	for i := range a {
		if a[i] != b[i] {
			return false
		}
	}
	return true
}

// H_C16_symbols (style P): a repository with three documents, each with 0-2 symbols (symbolic), and a
// second repository with one document with a symbol are merged by the real merge and exploded again
// by the real explode. Symbol sections (the byte ranges a symbol search reports) and the
// per-symbol information survive both steps for every document.
func H_C16_symbols() {
	verifrt.ClockConcrete()
	verifrt.FSReset()
	content := "func uncle() {}\nfunc funcTwo() {}\n"
	all := []DocumentSection{{5, 10}, {21, 28}}
	meta := []*zoekt.Symbol{{Sym: "uncle", Kind: "function", Parent: "P1"}, {Sym: "funcTwo", Kind: "method", Parent: "P2"}}
	b, err := NewShardBuilder(verifRepo(1, "syms", "main"))
	verifrt.Assert(err == nil, "builder")
	for i := 0; i < 3; i++ {
		n := verifrt.Concretize(verifrt.IntRange("symbols", 0, 2))
		first := 0
		if n == 1 {
			first = verifrt.Concretize(verifrt.IntRange("which", 0, 1))
		}
		doc := Document{Name: fmt.Sprintf("d%d.go", i), Content: []byte(content), Branches: []string{"main"}, Language: "Go", Category: FileCategoryDefault}
		doc.Symbols = append(doc.Symbols, all[first:first+n]...)
		doc.SymbolsMetaData = append(doc.SymbolsMetaData, meta[first:first+n]...)
		verifrt.Assert(b.Add(doc) == nil, "add")
	}
	syms := verifLoad(verifWriteShard(b, "verif-syms.zoekt"))
	b2, _ := NewShardBuilder(verifRepo(2, "other", "main"))
	verifrt.Assert(b2.Add(Document{Name: "o.go", Content: []byte("func uncover() {}\n"), Branches: []string{"main"}, Language: "Go", Category: FileCategoryDefault,
		Symbols: []DocumentSection{{5, 12}}, SymbolsMetaData: []*zoekt.Symbol{{Sym: "uncover", Kind: "function"}}}) == nil, "add")
	other := verifLoad(verifWriteShard(b2, "verif-other.zoekt"))
	before := append(verifC16Symbols(syms), verifC16Symbols(other)...)
	sort.Strings(before)

	sb, err := merge(syms, other)
	verifrt.Assert(err == nil, "merging two valid simple shards succeeds")
	if err != nil {
		return
	}
	compoundFile := verifWriteShard(sb, "/idx/compound-s_v17.00000.zoekt")
	verifrt.Assert(verifC16SameStrings(before, verifC16Symbols(verifLoad(compoundFile))), "the compound shard reports every symbol of its inputs at the same range with the same information")

	names, err := explode("/out", compoundFile)
	verifrt.Assert(err == nil, "exploding the compound shard succeeds")
	var after []string
	for tmp := range names {
		f, err := verifrt.OsOpen(tmp)
		verifrt.Assert(err == nil, "explode wrote every shard it announces")
		if err != nil {
			return
		}
		inf, _ := verifNewIndexFile(f)
		after = append(after, verifC16Symbols(verifLoad(inf.(*verifMemFile)))...)
	}
	sort.Strings(after)
	verifrt.Assert(verifC16SameStrings(before, after), "the exploded shards report every symbol at the same range with the same information")
	verifrt.Observe("symbols", len(before))
	verifrt.Reach("returned")
}
