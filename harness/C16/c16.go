//go:build verif

package index

import (
	"context"
	"fmt"
	"sort"

	"github.com/sourcegraph/zoekt"
	"github.com/sourcegraph/zoekt/query"
	verifrt "github.com/sourcegraph/zoekt/zz_verifrt"
)

type verifC16File struct {
	repo, name, content, lang string
	branches                  []string
}

func verifC16Files(d *indexData) []verifC16File {
	res, err := d.Search(context.Background(), &query.Const{Value: true}, &zoekt.SearchOptions{Whole: true})
	if err != nil {
		panic(err)
	}
	var out []verifC16File
	for _, f := range res.Files {
		out = append(out, verifC16File{repo: f.Repository, name: f.FileName, content: string(f.Content), lang: f.Language, branches: f.Branches})
	}
	sort.Slice(out, func(i, j int) bool {
		if out[i].repo != out[j].repo {
			return out[i].repo < out[j].repo
		}
		return out[i].name < out[j].name
	})
	return out
}

func verifC16Same(a, b []verifC16File) bool {
	if len(a) != len(b) {
		return false
	}
	for i := range a {
		x, y := a[i], b[i]
		if x.repo != y.repo || x.name != y.name || x.content != y.content || x.lang != y.lang || len(x.branches) != len(y.branches) {
			return false
		}
		for k := range x.branches {
			if x.branches[k] != y.branches[k] {
				return false
			}
		}
	}
	return true
}

// H_C16_mergeExplode (style P): two simple shards - one whose repository has up to 64 branches, with a
// document on a symbolically chosen branch (and optionally its neighbour) - are merged by the real
// merge, written, loaded, and exploded again by the real explode (through the environment model).
// Every document (name, content, language, branch membership) is the same before merging, in the
// compound shard, and in the exploded shards.
func H_C16_mergeExplode() {
	verifrt.ClockConcrete()
	verifrt.FSReset()
	nb := []int{1, 2, 32, 33, 40, 64}[verifrt.Concretize(verifrt.IntRange("branchCountChoice", 0, 5))]
	var names []string
	for i := 0; i < nb; i++ {
		names = append(names, fmt.Sprintf("b%d", i))
	}
	i := verifrt.Concretize(verifrt.IntRange("branch", 0, nb-1))
	docBranches := []string{names[i]}
	if verifrt.Bool("two") && i+1 < nb {
		docBranches = append(docBranches, names[i+1])
	}
	big := verifSimpleShard(verifRepo(1, "big", names...), []verifDoc{
		{name: "x.go", content: "package x\nfunc X() {}\n", branches: docBranches},
		{name: "y.go", content: "package y\n", branches: []string{names[0]}},
	})
	small := verifSimpleShard(verifRepo(2, "small", "main"), []verifDoc{{name: "z.txt", content: "zed\n"}})
	before := append(verifC16Files(big), verifC16Files(small)...)

	sb, err := merge(big, small)
	verifrt.Assert(err == nil, "merging two valid simple shards succeeds")
	if err != nil {
		return
	}
	compoundFile := verifWriteShard(sb, "/idx/compound-x_v17.00000.zoekt")
	compound := verifLoad(compoundFile)
	verifrt.Assert(verifC16Same(before, verifC16Files(compound)), "the compound shard holds exactly the documents of its inputs (content, language, branches)")

	names2, err := explode("/out", compoundFile)
	verifrt.Assert(err == nil, "exploding the compound shard succeeds")
	var after []verifC16File
	n := 0
	for tmp := range names2 {
		f, err := verifrt.OsOpen(tmp)
		verifrt.Assert(err == nil, "explode wrote every shard it announces")
		if err != nil {
			return
		}
		inf, _ := verifNewIndexFile(f)
		after = append(after, verifC16Files(verifLoad(inf.(*verifMemFile)))...)
		n++
	}
	sort.Slice(after, func(i, j int) bool {
		if after[i].repo != after[j].repo {
			return after[i].repo < after[j].repo
		}
		return after[i].name < after[j].name
	})
	verifrt.Assert(n == 2, "explode yields one shard per repository")
	verifrt.Assert(verifC16Same(before, after), "the exploded shards hold exactly the documents of the compound shard")
	verifrt.Observe("nb", nb)
	verifrt.Reach("returned")
}

func H_C16_twin() {
	verifrt.ClockConcrete()
	small := verifSimpleShard(verifRepo(2, "small", "main"), []verifDoc{{name: "z.txt", content: "zed\n"}})
	verifrt.Assert(len(verifC16Files(small)) == 77, "twin")
}

// H_C16_explodeTombstones: a compound shard of three repositories (two files each), some of them
// tombstoned through the real SetTombstone sidecar (symbolic subset), is exploded by the real
// Explode through the environment model. Afterwards the loader sees exactly the live repositories,
// each in its own shard with exactly its own documents; tombstoned content is gone.
func H_C16_explodeTombstones() {
	verifrt.ClockConcrete()
	verifrt.FSReset()
	const path = "/idx/compound-x_v17.00000.zoekt"
	compound := verifWriteShard(verifThreeRepos(), path)
	verifrt.FSPut(path, compound.data)
	var tomb [3]bool
	for i := 0; i < 3; i++ {
		tomb[i] = verifrt.Bool("tomb")
		if tomb[i] {
			verifrt.Assume(SetTombstone(path, uint32(i+1)) == nil)
		}
	}
	verifrt.Assume(!(tomb[0] && tomb[1] && tomb[2]))
	err := Explode("/idx", path)
	verifrt.Assert(err == nil, "exploding a compound shard with tombstoned repositories succeeds")
	paths, _ := verifrt.Glob("/idx/*.zoekt")
	seen := map[string]bool{}
	for _, p := range paths {
		f, oerr := verifrt.OsOpen(p)
		verifrt.Assert(oerr == nil, "visible shard opens")
		if oerr != nil {
			continue
		}
		inf, _ := verifNewIndexFile(f)
		d := verifLoad(inf.(*verifMemFile))
		files := verifC16Files(d)
		verifrt.Assert(len(d.repoMetaData) == 1, "explode yields simple shards")
		repo := d.repoMetaData[0].Name
		i := verifRepoIndex(repo)
		verifrt.Assert(i >= 0 && !tomb[i] && !seen[repo], "only live repositories are exploded, each once")
		seen[repo] = true
		verifrt.Assert(len(files) == 2, "an exploded shard holds exactly its repository's documents")
		for _, fl := range files {
			verifrt.Assert(fl.repo == repo, "no document of another repository ends up in the shard")
			if fl.name == "a.go" {
				verifrt.Assert(fl.content == "func needle"+repo+"() {}\nline two\n", "document content is preserved")
			}
		}
	}
	for i := 0; i < 3; i++ {
		verifrt.Assert(seen["r"+string(rune('1'+i))] == !tomb[i], "every live repository is present after explode, every tombstoned one is gone")
	}
	verifrt.Observe("shards", len(paths))
	verifrt.Reach("returned")
}
