//go:build verif

package query

import (
	verifrt "github.com/sourcegraph/zoekt/zz_verifrt"
)

// Query trees are built from a symbolic choice per node (kind, arity; at most `budget` nodes, depth
// <= 3). Atoms carry an identity 0/1; whether an atom holds of "the document" in its file name resp.
// its content is a pair of symbolic booleans per identity, and constants have symbolic values, so
// one path covers every truth assignment of its tree shape.

type c05Env struct {
	name, content [2]bool
	budget        int
}

func (e *c05Env) build(depth int) Q {
	e.budget--
	leafOnly := depth >= 3 || e.budget <= 0
	lo := 0
	if leafOnly {
		lo = 5
	}
	switch verifrt.Concretize(verifrt.IntRange("kind", lo, 12)) {
	case 0:
		return &And{Children: e.children(depth)}
	case 1:
		return &Or{Children: e.children(depth)}
	case 2:
		return &Not{Child: e.build(depth + 1)}
	case 3:
		return &Type{Type: TypeFileName, Child: e.build(depth + 1)}
	case 4:
		return &Boost{Boost: 2, Child: e.build(depth + 1)}
	case 5:
		return &Const{Value: verifrt.Bool("const")}
	case 6:
		return &Substring{Pattern: "p" + string(rune('0'+verifrt.Concretize(verifrt.IntRange("id", 0, 1))))} // file name or content
	case 7:
		return &Substring{Pattern: "p0", FileName: true}
	case 8:
		return &Substring{Pattern: "p1", Content: true}
	case 9:
		return &Substring{Pattern: ""} // matches everything
	case 10:
		return &Branch{Pattern: ""} // every branch
	case 11:
		return &RepoSet{Set: map[string]bool{}} // no repository
	}
	return &FileNameSet{Set: map[string]struct{}{}} // no file
}

func (e *c05Env) children(depth int) []Q {
	n := verifrt.Concretize(verifrt.IntRange("arity", 0, 2))
	var out []Q
	for i := 0; i < n; i++ {
		out = append(out, e.build(depth+1))
	}
	return out
}

// ref: the meaning of q on the document described by e.
func (e *c05Env) ref(q Q) bool {
	switch s := q.(type) {
	case *And:
		r := true
		for _, c := range s.Children {
			r = verifrt.And(r, e.ref(c))
		}
		return r
	case *Or:
		r := false
		for _, c := range s.Children {
			r = verifrt.Or(r, e.ref(c))
		}
		return r
	case *Not:
		return !e.ref(s.Child)
	case *Type:
		return e.ref(s.Child)
	case *Boost:
		return e.ref(s.Child)
	case *Const:
		return s.Value
	case *Substring:
		if s.Pattern == "" {
			return true
		}
		id := int(s.Pattern[1] - '0')
		if s.FileName && !s.Content {
			return e.name[id]
		}
		if s.Content && !s.FileName {
			return e.content[id]
		}
		return verifrt.Or(e.name[id], e.content[id])
	case *Branch:
		return s.Pattern == ""
	case *RepoSet:
		return len(s.Set) > 0
	case *FileNameSet:
		return len(s.Set) > 0
	}
	verifrt.Assert(false, "reference evaluator knows every node kind the rewrite can produce")
	return false
}

func c05Normal(q Q) bool {
	switch s := q.(type) {
	case *And:
		if len(s.Children) == 1 {
			return false
		}
		for _, c := range s.Children {
			if _, same := c.(*And); same || !c05Normal(c) {
				return false
			}
		}
	case *Or:
		if len(s.Children) == 1 {
			return false
		}
		for _, c := range s.Children {
			if _, same := c.(*Or); same || !c05Normal(c) {
				return false
			}
		}
	case *Not:
		return c05Normal(s.Child)
	case *Type:
		return c05Normal(s.Child)
	case *Boost:
		return c05Normal(s.Child)
	}
	return true
}

func c05NewEnv() *c05Env {
	e := &c05Env{budget: verifrt.Param("nodes", 3, 4)}
	for i := 0; i < 2; i++ {
		e.name[i], e.content[i] = verifrt.Bool("inName"), verifrt.Bool("inContent")
	}
	return e
}

// H_C05_simplify: Simplify (constant folding + flattening) preserves the meaning of every tree, for
// every truth assignment; the result has no single-child or nested same-kind and/or; the input tree
// still means the same afterwards (no destructive aliasing).
func H_C05_simplify() {
	e := c05NewEnv()
	q := e.build(0)
	before := e.ref(q)
	s := Simplify(q)
	verifrt.Assert(e.ref(s) == before, "Simplify preserves the meaning of the query")
	verifrt.Assert(c05Normal(s), "Simplify leaves no single-child or nested same-kind and/or")
	verifrt.Assert(e.ref(q) == before, "Simplify does not change the meaning of its input tree")
	verifrt.Observe("isConst", func() bool { _, ok := s.(*Const); return ok }())
	verifrt.Reach("returned")
}

// H_C05_expand: expanding file/content atoms (as every shard search does) preserves the meaning.
func H_C05_expand() {
	e := c05NewEnv()
	q := e.build(0)
	before := e.ref(q)
	x := Map(q, ExpandFileContent)
	verifrt.Assert(e.ref(x) == before, "ExpandFileContent preserves the meaning of the query")
	verifrt.Assert(e.ref(Simplify(x)) == before, "and so does simplifying the expansion")
	verifrt.Assert(e.ref(q) == before, "the input tree is not changed")
	verifrt.Reach("returned")
}

func H_C05_twin() {
	e := c05NewEnv()
	q := e.build(0)
	verifrt.Assert(e.ref(Simplify(q)) != e.ref(q), "twin")
}
