//go:build verif

package index

import (
	"context"

	"github.com/RoaringBitmap/roaring/v2"

	"github.com/sourcegraph/zoekt"
	"github.com/sourcegraph/zoekt/query"
	verifrt "github.com/sourcegraph/zoekt/zz_verifrt"
)

// H_C05_shardSimplify: the per-shard rewrite of repository atoms (indexData.simplify /
// simplifyMultiRepo: fold to true when every live repository matches, to false when none does) on a
// real compound shard with symbolic tombstones and a symbolic repository selection: the search
// returns exactly the files of live selected repositories that the rest of the query matches -
// what the unrewritten query means.
func H_C05_shardSimplify() {
	verifrt.ClockConcrete()
	b := verifThreeRepos()
	var tomb, member [3]bool
	for i := 0; i < 3; i++ {
		tomb[i] = verifrt.Bool("tomb")
		member[i] = verifrt.Bool("member")
		b.repoList[i].Tombstone = tomb[i]
	}
	d := verifLoad(verifWriteShard(b, "verif-compound.zoekt"))
	set := map[string]bool{}
	bm := roaring.New()
	for i := 0; i < 3; i++ {
		if member[i] {
			set["r"+string(rune('1'+i))] = true
			bm.Add(uint32(i + 1))
		}
	}
	var atom query.Q = &query.RepoSet{Set: set}
	if verifrt.Bool("byID") {
		atom = &query.RepoIDs{Repos: bm}
	}
	shape := verifrt.Concretize(verifrt.IntRange("shape", 0, 3))
	var q query.Q
	switch shape {
	case 0:
		q = atom
	case 1:
		q = query.NewAnd(atom, &query.Substring{Pattern: "needle"})
	case 2:
		q = &query.Not{Child: atom}
	default:
		q = query.NewOr(atom, &query.Substring{Pattern: "second"})
	}
	res, err := d.Search(context.Background(), q, &zoekt.SearchOptions{})
	verifrt.Assert(err == nil, "search succeeds")
	got := map[string]bool{}
	for _, f := range res.Files {
		got[f.Repository+"/"+f.FileName] = true
	}
	verifrt.Observe("nfiles", len(res.Files))
	for i := 0; i < 3; i++ {
		repo := "r" + string(rune('1'+i))
		for _, file := range []string{"a.go", "b.go"} {
			hasNeedle := file == "a.go" || i == 1
			hasSecond := file == "b.go" && i == 1
			var want bool
			switch shape {
			case 0:
				want = member[i]
			case 1:
				want = member[i] && hasNeedle
			case 2:
				want = !member[i]
			default:
				want = member[i] || hasSecond
			}
			want = want && !tomb[i]
			verifrt.Assert(got[repo+"/"+file] == want, "the shard returns exactly what the original query means on its live repositories")
		}
	}
	verifrt.Reach("returned")
}
