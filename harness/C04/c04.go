//go:build verif

package index

import (
	"context"

	"github.com/grafana/regexp"

	"github.com/sourcegraph/zoekt"
	"github.com/sourcegraph/zoekt/query"
	verifrt "github.com/sourcegraph/zoekt/zz_verifrt"
)

func verifC04Query(k int) query.Q {
	switch k {
	case 0:
		return &query.Meta{Field: "team", Value: regexp.MustCompile("^core$")}
	case 1:
		return &query.Meta{Field: "team", Value: regexp.MustCompile("web")}
	case 2:
		return query.NewAnd(&query.Meta{Field: "team", Value: regexp.MustCompile("^core$")}, &query.Substring{Pattern: "needle"})
	case 3:
		return &query.Substring{Pattern: "needle"}
	case 4:
		return query.NewOr(&query.Meta{Field: "team", Value: regexp.MustCompile("web")}, &query.Substring{Pattern: "second"})
	case 5:
		return &query.Not{Child: &query.Meta{Field: "team", Value: regexp.MustCompile("^core$")}}
	}
	return &query.Const{Value: true}
}

const verifC04Queries = 7

func verifC04Summary(r *zoekt.SearchResult) []string {
	var out []string
	for _, f := range r.Files {
		n := len(f.LineMatches)
		out = append(out, f.Repository+"/"+f.FileName+":"+string(rune('0'+n)))
	}
	return out
}

// H_C04_history: every search in a sequence on one searcher returns exactly what the same
// search returns on a freshly loaded searcher, for every match-tree cache size.
func H_C04_history() {
	verifrt.ClockConcrete()
	b := verifThreeRepos()
	for i := 0; i < 3; i++ {
		if verifrt.Bool("core") {
			b.repoList[i].Metadata = map[string]string{"team": "core"}
		} else if verifrt.Bool("web") {
			b.repoList[i].Metadata = map[string]string{"team": "webapp"}
		}
	}
	f := verifWriteShard(b, "verif-compound.zoekt")
	shared := verifLoad(f)
	shared.docMatchTreeCache = newDocMatchTreeCache(verifrt.Concretize(verifrt.IntRange("cacheSize", 0, 2)))
	steps := verifrt.Param("searches", 2, 3)
	for s := 0; s < steps; s++ {
		k := verifrt.Concretize(verifrt.IntRange("query", 0, verifC04Queries-1))
		got, err := shared.Search(context.Background(), verifC04Query(k), &zoekt.SearchOptions{})
		verifrt.Assert(err == nil, "search on the shared searcher succeeds")
		fresh := verifLoad(f)
		want, err := fresh.Search(context.Background(), verifC04Query(k), &zoekt.SearchOptions{})
		verifrt.Assert(err == nil, "search on a fresh searcher succeeds")
		g, w := verifC04Summary(got), verifC04Summary(want)
		verifrt.Observe("n", len(g))
		verifrt.Assert(len(g) == len(w), "a search returns as many files as on a freshly loaded index")
		if len(g) == len(w) {
			for i := range g {
				verifrt.Assert(g[i] == w[i], "a search returns the same files and matches as on a freshly loaded index")
			}
		}
		verifrt.Assert(len(shared.docMatchTreeCache.cache) <= shared.docMatchTreeCache.maxEntries, "the cache never exceeds its size")
	}
	verifrt.Reach("returned")
}

func H_C04_twin() {
	verifrt.ClockConcrete()
	d := verifLoad(verifWriteShard(verifThreeRepos(), "x.zoekt"))
	res, _ := d.Search(context.Background(), verifC04Query(3), &zoekt.SearchOptions{})
	verifrt.Assert(len(res.Files) == 77, "twin")
}

// H_C04_concurrent: two searches run concurrently on one searcher whose match-tree cache is on
// (size 1 or 2), on the engine's thread model (the cache's RWMutex operations are the scheduling
// points; at most one preemption). Quick: 4 x 1 query pairs; thorough: 4 x 4 and symbolic metadata. Each returns
// exactly what it returns on a freshly loaded searcher.
func H_C04_concurrent() {
	verifrt.ClockConcrete()
	verifrt.EnableThreads(200)
	verifrt.PreemptionBound(1)
	b := verifThreeRepos()
	b.repoList[0].Metadata = map[string]string{"team": "core"}
	b.repoList[1].Metadata = map[string]string{"team": "webapp"}
	if verifrt.Param("symbolicMetadata", 0, 1) == 1 && verifrt.Bool("core") {
		b.repoList[1].Metadata = map[string]string{"team": "core"}
	}
	f := verifWriteShard(b, "verif-compound.zoekt")
	shared := verifLoad(f)
	shared.docMatchTreeCache = newDocMatchTreeCache(verifrt.Concretize(verifrt.IntRange("cacheSize", 1, 2)))
	metaQueries := []int{0, 1, 2, 5}
	var got [2][]string
	var ks [2]int
	done := 0
	for t := 0; t < 2; t++ {
		t := t
		hi := len(metaQueries) - 1
		if t == 1 {
			hi = verifrt.Param("secondQueries", 0, 3) // quick: the second search is always meta query 0
		}
		ks[t] = metaQueries[verifrt.Concretize(verifrt.IntRange("query", 0, hi))]
		verifrt.Go(func() {
			res, err := shared.Search(context.Background(), verifC04Query(ks[t]), &zoekt.SearchOptions{})
			verifrt.Assert(err == nil, "a concurrent search succeeds")
			got[t] = verifC04Summary(res)
			done++
		})
	}
	verifrt.WaitUntil(func() bool { return done == 2 })
	for t := 0; t < 2; t++ {
		fresh := verifLoad(f)
		want, err := fresh.Search(context.Background(), verifC04Query(ks[t]), &zoekt.SearchOptions{})
		verifrt.Assert(err == nil, "search on a fresh searcher succeeds")
		w := verifC04Summary(want)
		verifrt.Assert(len(got[t]) == len(w), "a concurrent search returns as many files as on a freshly loaded index")
		if len(got[t]) == len(w) {
			for i := range w {
				verifrt.Assert(got[t][i] == w[i], "a concurrent search returns the same files and matches as on a freshly loaded index")
			}
		}
	}
	verifrt.Reach("returned")
}
