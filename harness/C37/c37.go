//go:build verif

package index

import (
	"github.com/sourcegraph/zoekt/internal/ctags"
	verifrt "github.com/sourcegraph/zoekt/zz_verifrt"
)

// c37Content: n symbolic bytes over the alphabet {a, b, space, newline}.
func c37Content(name string, n int) []byte {
	b := verifrt.Bytes(name, n)
	for _, c := range b {
		verifrt.Assume(verifrt.Or(verifrt.Or(c == 'a', c == 'b'), verifrt.Or(c == ' ', c == '\n')))
	}
	return b
}

func c37Name(l int) string {
	b := verifrt.Bytes("name", l)
	for _, c := range b {
		verifrt.Assume(verifrt.Or(c == 'a', c == 'b'))
	}
	return string(b)
}

func H_C37_convert() {
	var conv tagsToSections
	if verifrt.Bool("reused") {
		// a previous conversion leaves its newline buffer behind
		_, _, _ = conv.Convert([]byte("a\nb\n\nab"), nil)
	}
	n := verifrt.Concretize(verifrt.IntRange("n", 0, verifrt.Param("n", 4, 5)))
	content := c37Content("c", n)
	nt := verifrt.Concretize(verifrt.IntRange("tags", 0, verifrt.Param("tags", 2, 2)))
	var tags []*ctags.Entry
	for i := 0; i < nt; i++ {
		l := verifrt.Concretize(verifrt.IntRange("namelen", 0, 2))
		tags = append(tags, &ctags.Entry{Name: c37Name(l), Line: verifrt.IntRange("line", -1, 5), Kind: "k"})
	}
	secs, meta, err := conv.Convert(content, tags)
	verifrt.Assert(err == nil, "Convert drops what it cannot place instead of failing")
	verifrt.Observe("nsecs", len(secs))
	verifrt.Assert(len(secs) == len(meta), "metadata parallel to sections")
	verifrt.Assert(len(secs) <= len(tags), "at most one section per entry")
	for i, s := range secs {
		verifrt.Assert(s.Start <= s.End, "section is a range")
		verifrt.Assert(s.End <= uint32(len(content)), "section inside the file")
		if i > 0 {
			verifrt.Assert(secs[i-1].Start <= s.Start, "sections sorted by start")
			verifrt.Assert(secs[i-1].End <= s.Start, "sections do not overlap")
		}
		// the section covers exactly the symbol's name, on one line (branch-free over positions)
		name := meta[i].Sym
		ln := len(name)
		verifrt.Assert(s.End-s.Start == uint32(ln), "section length is the name length")
		okText := false
		for p := 0; p+ln <= n; p++ {
			same := string(content[p:p+ln]) == name
			for _, c := range content[p : p+ln] {
				same = verifrt.And(same, c != '\n')
			}
			okText = verifrt.Or(okText, verifrt.And(s.Start == uint32(p), same))
		}
		verifrt.Assert(okText, "section text is the symbol name, on one line")
	}
	// the real ShardBuilder.Add accepts what Convert produced (its sort, overlap and range checks
	// depend only on the sections and the content length, so the content handed to Add is a
	// concrete filler of the same length: trigram indexing of symbolic bytes is not the subject here)
	filler := make([]byte, n)
	for i := range filler {
		filler[i] = 'x'
	}
	sb, berr := NewShardBuilder(nil)
	verifrt.Assert(berr == nil, "builder")
	aerr := sb.Add(Document{Name: "f", Content: filler, Symbols: secs, SymbolsMetaData: meta, Language: "Go", Category: FileCategoryDefault})
	verifrt.Assert(aerr == nil, "ShardBuilder.Add accepts the sections Convert derived from ctags")
	verifrt.Reach("returned")
}

func H_C37_twin() {
	H_C37_convert()
	verifrt.Assert(false, "twin")
}

// overlaps: inductive step over any sorted non-overlapping state.
func H_C37_overlaps() {
	n := verifrt.Concretize(verifrt.IntRange("n", 0, 3))
	secs := make([]DocumentSection, n)
	for i := range secs {
		secs[i] = DocumentSection{Start: verifrt.U32("s"), End: verifrt.U32("e")}
		verifrt.Assume(secs[i].Start <= secs[i].End)
		if i > 0 {
			verifrt.Assume(secs[i-1].End <= secs[i].Start)
		}
	}
	s, e := verifrt.U32("start"), verifrt.U32("end")
	verifrt.Assume(s <= e)
	i := overlaps(secs, s, e)
	verifrt.Observe("i", i)
	if i >= 0 {
		verifrt.Assert(i <= n, "insert position in range")
		if i > 0 {
			verifrt.Assert(secs[i-1].End <= s, "left neighbour ends before the new section")
		}
		if i < n {
			verifrt.Assert(e <= secs[i].Start, "right neighbour starts after the new section")
		}
	}
	verifrt.Reach("returned")
}
