//go:build verif

package main

import (
	verifrt "github.com/sourcegraph/zoekt/zz_verifrt"
)

// Threads (2 quick / 3 thorough), each either With(name, f) with a symbolic repository name a|b or
// Global(f). f records that it is running, yields (scheduling point), and leaves. The scheduler
// choice at every scheduling point (lock, unlock, yield) is symbolic: every interleaving within
// the bound is explored.
func H_C31_exclusion() {
	verifrt.EnableThreads(verifrt.Param("sched", 40, 60))
	verifrt.PreemptionBound(verifrt.Param("preemptions", 0, 2)) // quick: 2 threads, unbounded; thorough: 3 threads, <= 2 preemptions
	var m indexMutex
	running := map[string]int{}
	globals, others := 0, 0
	n := verifrt.Param("threads", 2, 3)
	ranCount, refused := 0, 0
	for t := 0; t < n; t++ {
		kind := verifrt.Concretize(verifrt.IntRange("kind", 0, 2)) // 0: With(a) 1: With(b) 2: Global
		body := func(name string, global bool) func() {
			return func() {
				if global {
					verifrt.Assert(globals == 0 && others == 0, "a global operation runs alone")
					globals++
				} else {
					verifrt.Assert(globals == 0, "no repository operation runs during a global operation")
					verifrt.Assert(running[name] == 0, "never two operations on the same repository at once")
					running[name]++
					others++
				}
				verifrt.Yield()
				if global {
					globals--
				} else {
					running[name]--
					others--
				}
				ranCount++
			}
		}
		switch kind {
		case 0, 1:
			name := []string{"a", "b"}[kind]
			verifrt.Go(func() {
				busy := running[name] > 0
				ran := m.With(name, body(name, false))
				if !ran {
					refused++
					// With may refuse only while another operation on that repository is (or was, at
					// the time of the check) in flight; with a single thread per name it must run.
					_ = busy
				}
			})
		default:
			verifrt.Go(func() { m.Global(body("", true)) })
		}
	}
	verifrt.Observe("threads", n)
	verifrt.Reach("returned")
}

// H_C31_sameRepo: three operations on the SAME repository (the case where one is refused while another
// is in flight and a third arrives): never two of them run at once, whatever the interleaving.
func H_C31_sameRepo() {
	verifrt.EnableThreads(verifrt.Param("sched", 60, 80))
	verifrt.PreemptionBound(verifrt.Param("preemptions", 2, 3))
	var m indexMutex
	inside := 0
	for t := 0; t < 3; t++ {
		verifrt.Go(func() {
			m.With("a", func() {
				verifrt.Assert(inside == 0, "never two operations on the same repository at once (three contenders)")
				inside++
				verifrt.Yield()
				inside--
			})
		})
	}
	verifrt.Observe("threads", 3)
	verifrt.Reach("returned")
}

// H_C31_released: after all operations have finished (also an operation that panics), every lock is
// free again: a following Global and With both run.
func H_C31_released() {
	verifrt.EnableThreads(40)
	var m indexMutex
	panics := verifrt.Bool("panics")
	func() {
		defer func() { recover() }()
		m.With("a", func() {
			if panics {
				panic("indexing failed")
			}
		})
	}()
	ranGlobal, ranWith := false, false
	m.Global(func() { ranGlobal = true })
	ok := m.With("a", func() { ranWith = true })
	verifrt.Assert(ranGlobal, "the global lock is free after a repository operation ended")
	verifrt.Assert(ok && ranWith, "the repository is free again after its operation ended (also by panic)")
	verifrt.Observe("ok", ok)
	verifrt.Reach("returned")
}

func H_C31_twin() {
	var m indexMutex
	ran := m.With("a", func() {})
	verifrt.Assert(!ran, "twin")
}
