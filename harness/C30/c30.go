//go:build verif

package main

import (
	"time"

	sglog "github.com/sourcegraph/log"

	verifrt "github.com/sourcegraph/zoekt/zz_verifrt"
)

// reference model of the documented queue behaviour
type c30Ref struct {
	tracked map[uint32]bool
	onQueue map[uint32]bool
	indexed map[uint32]bool
	failed  map[uint32]bool
	ver     map[uint32]int // options version last given to AddOrUpdate (0 = never)
	seq     map[uint32]int
	nextSeq int
}

func c30Opts(id uint32, ver int) IndexOptions {
	return IndexOptions{RepoID: id, Name: "repo", Priority: float64(ver)}
}

func (r *c30Ref) push(id uint32) {
	r.nextSeq++
	r.seq[id] = r.nextSeq
	r.onQueue[id] = true
}

// best: the repository Pop must return: not-yet-indexed before indexed, non-failed before failed, FIFO otherwise.
func (r *c30Ref) best() (uint32, bool) {
	var bestID uint32
	found := false
	for id := uint32(1); id <= 3; id++ {
		if !r.onQueue[id] {
			continue
		}
		if !found {
			bestID, found = id, true
			continue
		}
		b := bestID
		less := false
		if r.indexed[id] != r.indexed[b] {
			less = !r.indexed[id]
		} else if r.failed[id] != r.failed[b] {
			less = !r.failed[id]
		} else {
			less = r.seq[id] < r.seq[b]
		}
		if less {
			bestID = id
		}
	}
	return bestID, found
}

func H_C30_history() {
	verifrt.ClockStrict()
	q := NewQueue(0, 0, sglog.NoOp()) // no backoff delay: failure backoff is covered by H_C30_backoff
	ref := &c30Ref{tracked: map[uint32]bool{}, onQueue: map[uint32]bool{}, indexed: map[uint32]bool{}, failed: map[uint32]bool{}, ver: map[uint32]int{}, seq: map[uint32]int{}}
	steps := verifrt.Param("steps", 3, 4)
	for s := 0; s < steps; s++ {
		op := verifrt.Concretize(verifrt.IntRange("op", 0, 4))
		id := uint32(verifrt.Concretize(verifrt.IntRange("id", 1, 2)))
		switch op {
		case 0: // AddOrUpdate
			ver := verifrt.Concretize(verifrt.IntRange("ver", 1, 2))
			q.AddOrUpdate(c30Opts(id, ver))
			ref.tracked[id] = true
			if ref.ver[id] != ver {
				ref.indexed[id] = false
				ref.ver[id] = ver
			}
			if !ref.onQueue[id] {
				ref.push(id)
			}
		case 1: // Pop
			it, ok := q.Pop()
			want, wok := ref.best()
			verifrt.Assert(ok == wok, "Pop succeeds iff something is queued")
			if ok && wok {
				verifrt.Assert(it.Opts.RepoID == want, "Pop yields unindexed before indexed, non-failed before failed, then FIFO")
				verifrt.Assert(int(it.Opts.Priority) == ref.ver[want], "Pop yields the latest options")
				ref.onQueue[want] = false
			}
		case 2: // SetIndexed
			ver := verifrt.Concretize(verifrt.IntRange("ver", 1, 2))
			fail := verifrt.Bool("fail")
			state := indexStateSuccess
			if fail {
				state = indexStateFail
			}
			q.SetIndexed(c30Opts(id, ver), state)
			ref.tracked[id] = true
			ref.failed[id] = fail
			if !fail {
				ref.indexed[id] = ref.ver[id] == ver
			} else {
				ref.onQueue[id] = false
			}
		case 3: // Bump
			missing := q.Bump([]uint32{id})
			verifrt.Assert((len(missing) == 1) == !ref.tracked[id], "Bump reports exactly the untracked ids")
			if ref.tracked[id] && !ref.onQueue[id] {
				ref.push(id)
			}
		case 4: // MaybeRemoveMissing(keep): keep = {id} or {}
			var keep []uint32
			if verifrt.Bool("keepOne") {
				keep = []uint32{id}
			}
			ntracked := 0
			for i := uint32(1); i <= 3; i++ {
				if ref.tracked[i] {
					ntracked++
				}
			}
			q.MaybeRemoveMissing(keep)
			if ntracked != len(keep) { // documented shortcut: same size => nothing to do
				for i := uint32(1); i <= 3; i++ {
					if ref.tracked[i] && !(len(keep) == 1 && keep[0] == i) {
						ref.tracked[i], ref.onQueue[i], ref.indexed[i], ref.failed[i] = false, false, false, false
						ref.ver[i] = 0
					}
				}
			}
		}
		// after every step: queue length and tracked set agree with the model
		nq, nt := 0, 0
		for i := uint32(1); i <= 3; i++ {
			if ref.onQueue[i] {
				nq++
			}
			if ref.tracked[i] {
				nt++
			}
			verifrt.Assert((q.get(i) != nil) == ref.tracked[i], "the queue tracks exactly the repositories it was told about and that still exist")
		}
		verifrt.Assert(q.Len() == nq, "queue length agrees with the model")
		verifrt.Assert(len(q.items) == nt, "no stray tracked entries")
	}
	// drain: each enqueued repository is yielded once, in priority order
	for {
		it, ok := q.Pop()
		want, wok := ref.best()
		verifrt.Assert(ok == wok, "drain: Pop succeeds iff something is queued")
		if !ok || !wok {
			break
		}
		verifrt.Assert(it.Opts.RepoID == want, "drain: priority order")
		ref.onQueue[want] = false
	}
	verifrt.Reach("returned")
}

func H_C30_twin() {
	H_C30_history()
	verifrt.Assert(false, "twin")
}

// backoff: after k consecutive failures at time t the item is not allowed before
// t + min((k)*d, max) and is allowed after it; Reset clears it.
func H_C30_backoff() {
	d := time.Duration(verifrt.IntRange("d", 0, 1000)) * time.Second
	max := time.Duration(verifrt.IntRange("max", 0, 5000)) * time.Second
	b := backoff{backoffDuration: d, maxBackoff: max}
	t0 := int64(verifrt.IntRange("t0", 1_600_000_000, 1_700_000_000))
	fails := verifrt.Concretize(verifrt.IntRange("fails", 1, 3))
	now := t0
	for i := 0; i < fails; i++ {
		b.Fail(time.Unix(now, 0), sglog.NoOp(), IndexOptions{})
		want := time.Duration(i+1) * d
		if want > max {
			want = max
		}
		probe := int64(verifrt.IntRange("probe", 0, 10000))
		allowed := b.Allow(time.Unix(now+probe, 0))
		verifrt.Assert(allowed == (time.Duration(probe)*time.Second > want), "Allow iff strictly later than the backoff deadline")
		now += int64(verifrt.IntRange("gap", 0, 10000))
	}
	b.Reset()
	verifrt.Assert(b.Allow(time.Unix(now, 0)), "Reset lifts the backoff")
	verifrt.Reach("returned")
}
