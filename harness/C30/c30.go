//go:build verif

package main

import (
	"time"

	sglog "github.com/sourcegraph/log"

	verifrt "github.com/sourcegraph/zoekt/zz_verifrt"
)

// reference model of the documented queue behaviour
type c30Ref struct {
	tracked map[uint32]bool
	onQueue map[uint32]bool
	indexed map[uint32]bool
	failed  map[uint32]bool
	ver     map[uint32]int // options version last given to AddOrUpdate (0 = never)
	seq     map[uint32]int
	nextSeq int
}

func c30Opts(id uint32, ver int) IndexOptions {
	return IndexOptions{RepoID: id, Name: "repo", Priority: float64(ver)}
}

func (r *c30Ref) push(id uint32) {
	r.nextSeq++
	r.seq[id] = r.nextSeq
	r.onQueue[id] = true
}

// best: the repository Pop must return: not-yet-indexed before indexed, non-failed before failed, FIFO otherwise.
func (r *c30Ref) best() (uint32, bool) {
	var bestID uint32
	found := false
	for id := uint32(1); id <= 3; id++ {
		if !r.onQueue[id] {
			continue
		}
		if !found {
			bestID, found = id, true
			continue
		}
		b := bestID
		less := false
		if r.indexed[id] != r.indexed[b] {
			less = !r.indexed[id]
		} else if r.failed[id] != r.failed[b] {
			less = !r.failed[id]
		} else {
			less = r.seq[id] < r.seq[b]
		}
		if less {
			bestID = id
		}
	}
	return bestID, found
}

func H_C30_history() {
	verifrt.ClockStrict()
	q := NewQueue(0, 0, sglog.NoOp()) // no backoff delay: failure backoff is covered by H_C30_backoff
	ref := &c30Ref{tracked: map[uint32]bool{}, onQueue: map[uint32]bool{}, indexed: map[uint32]bool{}, failed: map[uint32]bool{}, ver: map[uint32]int{}, seq: map[uint32]int{}}
	steps := verifrt.Param("steps", 3, 4)
	for s := 0; s < steps; s++ {
		op := verifrt.Concretize(verifrt.IntRange("op", 0, 4))
		id := uint32(verifrt.Concretize(verifrt.IntRange("id", 1, 2)))
		switch op {
		case 0: // AddOrUpdate
			ver := verifrt.Concretize(verifrt.IntRange("ver", 1, 2))
			q.AddOrUpdate(c30Opts(id, ver))
			ref.tracked[id] = true
			if ref.ver[id] != ver {
				ref.indexed[id] = false
				ref.ver[id] = ver
			}
			if !ref.onQueue[id] {
				ref.push(id)
			}
		case 1: // Pop
			it, ok := q.Pop()
			want, wok := ref.best()
			verifrt.Assert(ok == wok, "Pop succeeds iff something is queued")
			if ok && wok {
				verifrt.Assert(it.Opts.RepoID == want, "Pop yields unindexed before indexed, non-failed before failed, then FIFO")
				verifrt.Assert(int(it.Opts.Priority) == ref.ver[want], "Pop yields the latest options")
				ref.onQueue[want] = false
			}
		case 2: // SetIndexed
			ver := verifrt.Concretize(verifrt.IntRange("ver", 1, 2))
			fail := verifrt.Bool("fail")
			state := indexStateSuccess
			if fail {
				state = indexStateFail
			}
			q.SetIndexed(c30Opts(id, ver), state)
			if !ref.tracked[id] {
				// nothing else is known about the repository: the options just reported are the last known ones
				ref.ver[id] = ver
			}
			ref.tracked[id] = true
			ref.failed[id] = fail
			if !fail {
				ref.indexed[id] = ref.ver[id] == ver
			} else {
				ref.onQueue[id] = false
			}
		case 3: // Bump
			missing := q.Bump([]uint32{id})
			verifrt.Assert((len(missing) == 1) == !ref.tracked[id], "Bump reports exactly the untracked ids")
			if ref.tracked[id] && !ref.onQueue[id] {
				ref.push(id)
			}
		case 4: // MaybeRemoveMissing(keep): keep = {id} or {}
			var keep []uint32
			if verifrt.Bool("keepOne") {
				keep = []uint32{id}
			}
			// ids the queue has never heard of (newly assigned repositories are passed here before
			// AddOrUpdate runs on them)
			for _, unknown := range []uint32{8} {
				if verifrt.Bool("keepUnknown") {
					keep = append(keep, unknown)
				}
			}
			ntracked := 0
			for i := uint32(1); i <= 3; i++ {
				if ref.tracked[i] {
					ntracked++
				}
			}
			q.MaybeRemoveMissing(keep)
			if ntracked != len(keep) { // documented shortcut: same size => nothing to do
				for i := uint32(1); i <= 3; i++ {
					if ref.tracked[i] && !(len(keep) >= 1 && keep[0] == i) {
						ref.tracked[i], ref.onQueue[i], ref.indexed[i], ref.failed[i] = false, false, false, false
						ref.ver[i] = 0
					}
				}
			}
		}
		// after every step: queue length and tracked set agree with the model
		nq, nt := 0, 0
		for i := uint32(1); i <= 3; i++ {
			if ref.onQueue[i] {
				nq++
			}
			if ref.tracked[i] {
				nt++
			}
			verifrt.Assert((q.get(i) != nil) == ref.tracked[i], "the queue tracks exactly the repositories it was told about and that still exist")
		}
		verifrt.Assert(q.Len() == nq, "queue length agrees with the model")
		// representation invariant: heap positions are recorded, items off the heap say so, heap order holds
		onHeap := 0
		for i, it := range q.pq {
			verifrt.Assert(it.heapIdx == i, "heapIdx is the item's position in the heap")
			verifrt.Assert(q.items[it.repoID] == it, "every heap entry is a tracked item")
			if i > 0 {
				verifrt.Assert(!lessQueueItemPriority(it, q.pq[(i-1)/2]), "heap order: no child has priority over its parent")
			}
			onHeap++
		}
		for id, it := range q.items {
			verifrt.Assert(it.repoID == id, "items are keyed by their repository id")
			verifrt.Assert(it.heapIdx < 0 || (it.heapIdx < len(q.pq) && q.pq[it.heapIdx] == it), "an item's heapIdx is -1 or points at itself")
		}
		verifrt.Assert(len(q.items) == nt, "no stray tracked entries")
	}
	// drain: each enqueued repository is yielded once, in priority order
	for {
		it, ok := q.Pop()
		want, wok := ref.best()
		verifrt.Assert(ok == wok, "drain: Pop succeeds iff something is queued")
		if !ok || !wok {
			break
		}
		verifrt.Assert(it.Opts.RepoID == want, "drain: priority order")
		ref.onQueue[want] = false
	}
	verifrt.Reach("returned")
}

func H_C30_twin() {
	H_C30_history()
	verifrt.Assert(false, "twin")
}

// backoff: after k consecutive failures, the last one at time t, the item is not allowed
// before t + min(k*d, max) and is allowed after it; Reset clears it. d and max are
// case-split over whole seconds (a symbolic duration would put a 64-bit division by 1e9
// from time.Time.Add in front of the solver); instants, probe offsets and gaps are symbolic.
func H_C30_backoff() {
	dS := verifrt.Concretize(verifrt.IntRange("d", 0, verifrt.Param("dmax", 3, 5)))
	maxS := verifrt.Concretize(verifrt.IntRange("max", 0, verifrt.Param("maxmax", 7, 12)))
	b := backoff{backoffDuration: time.Duration(dS) * time.Second, maxBackoff: time.Duration(maxS) * time.Second}
	now := int64(verifrt.IntRange("t0", 1_600_000_000, 1_700_000_000))
	fails := verifrt.Concretize(verifrt.IntRange("fails", 1, verifrt.Param("fails", 3, 3)))
	for i := 0; i < fails; i++ {
		b.Fail(time.Unix(now, 0), sglog.NoOp(), IndexOptions{})
		wantS := (i + 1) * dS
		if wantS > maxS {
			wantS = maxS
		}
		probe := verifrt.IntRange("probe", 0, 100)
		allowed := b.Allow(time.Unix(now+int64(probe), 0))
		verifrt.Assert(allowed == (probe > wantS), "Allow iff strictly later than the backoff deadline")
		now += int64(verifrt.IntRange("gap", 0, 10000))
	}
	verifrt.Observe("allowedNow", b.Allow(time.Unix(now, 0)))
	b.Reset()
	verifrt.Assert(b.Allow(time.Unix(now, 0)), "Reset lifts the backoff")
	verifrt.Reach("returned")
}

// backoffQueue: the queue consults the backoff on both re-enqueue paths. With a one hour
// backoff a failed repository is not re-enqueued by AddOrUpdate or Bump while less than an
// hour has passed, and a success lifts the backoff.
func H_C30_backoffQueue() {
	q := NewQueue(time.Hour, time.Hour, sglog.NoOp())
	q.AddOrUpdate(c30Opts(1, 1))
	it, ok := q.Pop()
	verifrt.Assert(ok && it.Opts.RepoID == 1, "the added repository is yielded")
	tA := time.Now()
	q.SetIndexed(it.Opts, indexStateFail)
	bump := verifrt.Bool("bump")
	if bump {
		q.Bump([]uint32{1})
	} else {
		q.AddOrUpdate(c30Opts(1, 2))
	}
	tB := time.Now()
	verifrt.Assume(tB.Unix()-tA.Unix() < 3600)
	verifrt.Assert(q.Len() == 0, "a failed repository is not re-enqueued during its backoff")
	q.SetIndexed(c30Opts(1, 1), indexStateSuccess)
	if bump {
		q.Bump([]uint32{1})
	} else {
		q.AddOrUpdate(c30Opts(1, 1))
	}
	verifrt.Assert(q.Len() == 1, "a success lifts the backoff")
	verifrt.Observe("len", q.Len())
	verifrt.Reach("returned")
}

// ---- inductive step: from ANY queue state satisfying the representation invariant (up to 3
// tracked repositories, any subset on the heap in any heap-ordered arrangement, arbitrary
// indexed / failed flags, distinct sequence numbers), one operation re-establishes the
// invariant, and Pop yields the reference minimum. Covers histories of any length.

func c30RefLess(xIndexed, xFail bool, xSeq int64, yIndexed, yFail bool, ySeq int64) bool {
	if xIndexed != yIndexed {
		return !xIndexed
	}
	if xFail != yFail {
		return !xFail
	}
	return xSeq < ySeq
}

func c30ItemLess(x, y *queueItem) bool {
	return c30RefLess(x.indexed, x.indexState == indexStateFail, x.seq, y.indexed, y.indexState == indexStateFail, y.seq)
}

func c30CheckInvariant(q *Queue, when string) {
	for i, it := range q.pq {
		verifrt.Assert(it.heapIdx == i, "step: heapIdx is the item's position in the heap ("+when+")")
		verifrt.Assert(q.items[it.repoID] == it, "step: every heap entry is a tracked item ("+when+")")
		if i > 0 {
			verifrt.Assert(!c30ItemLess(it, q.pq[(i-1)/2]), "step: heap order by (not indexed, not failed, FIFO) ("+when+")")
		}
	}
	for id, it := range q.items {
		verifrt.Assert(it.repoID == id, "step: items are keyed by their repository id ("+when+")")
		verifrt.Assert(it.heapIdx < 0 || (it.heapIdx < len(q.pq) && q.pq[it.heapIdx] == it), "step: heapIdx is -1 or points at the item ("+when+")")
	}
}

func H_C30_step() {
	verifrt.ClockStrict()
	q := NewQueue(0, 0, sglog.NoOp())
	n := verifrt.Concretize(verifrt.IntRange("n", 0, verifrt.Param("items", 3, 3)))
	states := []indexState{indexStateSuccess, indexStateFail, indexStateNoop}
	var items []*queueItem
	for i := 0; i < n; i++ {
		it := q.newQueueItem(uint32(i + 1))
		it.opts = c30Opts(uint32(i+1), 1)
		it.indexed = verifrt.Bool("indexed")
		it.indexState = indexStateSuccess
		if verifrt.Bool("failed") {
			it.indexState = indexStateFail
		}
		it.seq = int64(verifrt.IntRange("seq", 1, 8))
		for _, o := range items {
			verifrt.Assume(o.seq != it.seq)
		}
		q.items[it.repoID] = it
		items = append(items, it)
		if verifrt.Bool("onHeap") {
			it.heapIdx = len(q.pq)
			q.pq = append(q.pq, it)
		}
	}
	q.seq = 8
	for i := 1; i < len(q.pq); i++ {
		verifrt.Assume(!c30ItemLess(q.pq[i], q.pq[(i-1)/2]))
	}
	// the reference minimum of the pre-state
	var min *queueItem
	for _, it := range q.pq {
		if min == nil || c30ItemLess(it, min) {
			min = it
		}
	}
	preLen := len(q.pq)
	op := verifrt.Concretize(verifrt.IntRange("op", 0, 4))
	id := uint32(verifrt.Concretize(verifrt.IntRange("id", 1, n+1)))
	var pre *queueItem
	if int(id) <= n {
		pre = items[id-1]
	}
	wasOn := pre != nil && pre.heapIdx >= 0
	switch op {
	case 0:
		ver := verifrt.Concretize(verifrt.IntRange("ver2", 1, 2))
		q.AddOrUpdate(c30Opts(id, ver))
		it := q.items[id]
		verifrt.Assert(it != nil && it.heapIdx >= 0, "step: AddOrUpdate leaves the repository enqueued (no backoff configured)")
		verifrt.Assert(int(it.opts.Priority) == ver, "step: AddOrUpdate stores the latest options")
		if pre != nil && int(pre.opts.Priority) != ver {
			verifrt.Assert(!it.indexed, "step: new options are not yet indexed")
		}
		if wasOn {
			verifrt.Assert(len(q.pq) == preLen, "step: an enqueued repository is not enqueued twice")
		} else {
			verifrt.Assert(len(q.pq) == preLen+1 && it.seq > 8, "step: enqueued once, behind earlier entries")
		}
	case 1:
		got, ok := q.Pop()
		verifrt.Assert(ok == (preLen > 0), "step: Pop succeeds iff something is queued")
		if ok {
			verifrt.Assert(got.Opts.RepoID == min.repoID, "step: Pop yields not-indexed before indexed, non-failed before failed, then FIFO")
			verifrt.Assert(min.heapIdx < 0 && len(q.pq) == preLen-1, "step: the popped repository left the queue")
		}
	case 2:
		ver := verifrt.Concretize(verifrt.IntRange("ver2", 1, 2))
		st := states[verifrt.Concretize(verifrt.IntRange("state2", 0, 2))]
		q.SetIndexed(c30Opts(id, ver), st)
		it := q.items[id]
		verifrt.Assert(it != nil && it.indexState == st, "step: SetIndexed records the outcome")
		if st == indexStateFail {
			verifrt.Assert(it.heapIdx < 0, "step: a failed repository leaves the queue")
		} else {
			verifrt.Assert((it.heapIdx >= 0) == wasOn, "step: SetIndexed(success) never adds or removes")
			if pre != nil {
				verifrt.Assert(it.indexed == (int(pre.opts.Priority) == ver), "step: indexed iff the indexed options are the latest ones")
			}
		}
	case 3:
		missing := q.Bump([]uint32{id})
		verifrt.Assert((len(missing) == 1) == (pre == nil), "step: Bump reports exactly the unknown ids")
		if pre != nil {
			verifrt.Assert(pre.heapIdx >= 0, "step: Bump enqueues a known repository (no backoff configured)")
			if !wasOn {
				verifrt.Assert(pre.seq > 8, "step: bumped behind earlier entries")
			}
		}
	case 4:
		var keep []uint32
		if verifrt.Bool("keepOne") {
			keep = []uint32{id}
		}
		for _, unknown := range []uint32{8} {
			if verifrt.Bool("keepUnknown") {
				keep = append(keep, unknown)
			}
		}
		q.MaybeRemoveMissing(keep)
		if n != len(keep) {
			for _, it := range items {
				kept := len(keep) >= 1 && keep[0] == it.repoID
				verifrt.Assert((q.items[it.repoID] == it) == kept, "step: exactly the repositories that still exist stay tracked")
				if !kept {
					for _, h := range q.pq {
						verifrt.Assert(h != it, "step: a removed repository is not left on the heap")
					}
				}
			}
		}
	}
	c30CheckInvariant(q, "after the operation")
	verifrt.Observe("len", len(q.pq))
	verifrt.Reach("returned")
}
