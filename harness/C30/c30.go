//go:build verif

package main

import (
	"time"

	sglog "github.com/sourcegraph/log"

	verifrt "github.com/sourcegraph/zoekt/zz_verifrt"
)

// reference model of the documented queue behaviour
type c30Ref struct {
	tracked map[uint32]bool
	onQueue map[uint32]bool
	indexed map[uint32]bool
	failed  map[uint32]bool
	ver     map[uint32]int // options version last given to AddOrUpdate (0 = never)
	seq     map[uint32]int
	nextSeq int
}

func c30Opts(id uint32, ver int) IndexOptions {
	return IndexOptions{RepoID: id, Name: "repo", Priority: float64(ver)}
}

func (r *c30Ref) push(id uint32) {
	r.nextSeq++
	r.seq[id] = r.nextSeq
	r.onQueue[id] = true
}

// best: the repository Pop must return: not-yet-indexed before indexed, non-failed before failed, FIFO otherwise.
func (r *c30Ref) best() (uint32, bool) {
	var bestID uint32
	found := false
	for id := uint32(1); id <= 3; id++ {
		if !r.onQueue[id] {
			continue
		}
		if !found {
			bestID, found = id, true
			continue
		}
		b := bestID
		less := false
		if r.indexed[id] != r.indexed[b] {
			less = !r.indexed[id]
		} else if r.failed[id] != r.failed[b] {
			less = !r.failed[id]
		} else {
			less = r.seq[id] < r.seq[b]
		}
		if less {
			bestID = id
		}
	}
	return bestID, found
}

func H_C30_history() {
	verifrt.ClockStrict()
	q := NewQueue(0, 0, sglog.NoOp()) // no backoff delay: failure backoff is covered by H_C30_backoff
	ref := &c30Ref{tracked: map[uint32]bool{}, onQueue: map[uint32]bool{}, indexed: map[uint32]bool{}, failed: map[uint32]bool{}, ver: map[uint32]int{}, seq: map[uint32]int{}}
	steps := verifrt.Param("steps", 3, 4)
	for s := 0; s < steps; s++ {
		op := verifrt.Concretize(verifrt.IntRange("op", 0, 4))
		id := uint32(verifrt.Concretize(verifrt.IntRange("id", 1, 2)))
		switch op {
		case 0: // AddOrUpdate
			ver := verifrt.Concretize(verifrt.IntRange("ver", 1, 2))
			q.AddOrUpdate(c30Opts(id, ver))
			ref.tracked[id] = true
			if ref.ver[id] != ver {
				ref.indexed[id] = false
				ref.ver[id] = ver
			}
			if !ref.onQueue[id] {
				ref.push(id)
			}
		case 1: // Pop
			it, ok := q.Pop()
			want, wok := ref.best()
			verifrt.Assert(ok == wok, "Pop succeeds iff something is queued")
			if ok && wok {
				verifrt.Assert(it.Opts.RepoID == want, "Pop yields unindexed before indexed, non-failed before failed, then FIFO")
				verifrt.Assert(int(it.Opts.Priority) == ref.ver[want], "Pop yields the latest options")
				ref.onQueue[want] = false
			}
		case 2: // SetIndexed
			ver := verifrt.Concretize(verifrt.IntRange("ver", 1, 2))
			fail := verifrt.Bool("fail")
			state := indexStateSuccess
			if fail {
				state = indexStateFail
			}
			q.SetIndexed(c30Opts(id, ver), state)
			if !ref.tracked[id] {
				// nothing else is known about the repository: the options just reported are the last known ones
				ref.ver[id] = ver
			}
			ref.tracked[id] = true
			ref.failed[id] = fail
			if !fail {
				ref.indexed[id] = ref.ver[id] == ver
			} else {
				ref.onQueue[id] = false
			}
		case 3: // Bump
			missing := q.Bump([]uint32{id})
			verifrt.Assert((len(missing) == 1) == !ref.tracked[id], "Bump reports exactly the untracked ids")
			if ref.tracked[id] && !ref.onQueue[id] {
				ref.push(id)
			}
		case 4: // MaybeRemoveMissing(keep): keep = {id} or {}
			var keep []uint32
			if verifrt.Bool("keepOne") {
				keep = []uint32{id}
			}
			ntracked := 0
			for i := uint32(1); i <= 3; i++ {
				if ref.tracked[i] {
					ntracked++
				}
			}
			q.MaybeRemoveMissing(keep)
			if ntracked != len(keep) { // documented shortcut: same size => nothing to do
				for i := uint32(1); i <= 3; i++ {
					if ref.tracked[i] && !(len(keep) == 1 && keep[0] == i) {
						ref.tracked[i], ref.onQueue[i], ref.indexed[i], ref.failed[i] = false, false, false, false
						ref.ver[i] = 0
					}
				}
			}
		}
		// after every step: queue length and tracked set agree with the model
		nq, nt := 0, 0
		for i := uint32(1); i <= 3; i++ {
			if ref.onQueue[i] {
				nq++
			}
			if ref.tracked[i] {
				nt++
			}
			verifrt.Assert((q.get(i) != nil) == ref.tracked[i], "the queue tracks exactly the repositories it was told about and that still exist")
		}
		verifrt.Assert(q.Len() == nq, "queue length agrees with the model")
		// representation invariant: heap positions are recorded, items off the heap say so, heap order holds
		onHeap := 0
		for i, it := range q.pq {
			verifrt.Assert(it.heapIdx == i, "heapIdx is the item's position in the heap")
			verifrt.Assert(q.items[it.repoID] == it, "every heap entry is a tracked item")
			if i > 0 {
				verifrt.Assert(!lessQueueItemPriority(it, q.pq[(i-1)/2]), "heap order: no child has priority over its parent")
			}
			onHeap++
		}
		for id, it := range q.items {
			verifrt.Assert(it.repoID == id, "items are keyed by their repository id")
			verifrt.Assert(it.heapIdx < 0 || (it.heapIdx < len(q.pq) && q.pq[it.heapIdx] == it), "an item's heapIdx is -1 or points at itself")
		}
		verifrt.Assert(len(q.items) == nt, "no stray tracked entries")
	}
	// drain: each enqueued repository is yielded once, in priority order
	for {
		it, ok := q.Pop()
		want, wok := ref.best()
		verifrt.Assert(ok == wok, "drain: Pop succeeds iff something is queued")
		if !ok || !wok {
			break
		}
		verifrt.Assert(it.Opts.RepoID == want, "drain: priority order")
		ref.onQueue[want] = false
	}
	verifrt.Reach("returned")
}

func H_C30_twin() {
	H_C30_history()
	verifrt.Assert(false, "twin")
}

// backoff: after k consecutive failures, the last one at time t, the item is not allowed
// before t + min(k*d, max) and is allowed after it; Reset clears it. d and max are
// case-split over whole seconds (a symbolic duration would put a 64-bit division by 1e9
// from time.Time.Add in front of the solver); instants, probe offsets and gaps are symbolic.
func H_C30_backoff() {
	dS := verifrt.Concretize(verifrt.IntRange("d", 0, verifrt.Param("dmax", 3, 5)))
	maxS := verifrt.Concretize(verifrt.IntRange("max", 0, verifrt.Param("maxmax", 7, 12)))
	b := backoff{backoffDuration: time.Duration(dS) * time.Second, maxBackoff: time.Duration(maxS) * time.Second}
	now := int64(verifrt.IntRange("t0", 1_600_000_000, 1_700_000_000))
	fails := verifrt.Concretize(verifrt.IntRange("fails", 1, verifrt.Param("fails", 3, 3)))
	for i := 0; i < fails; i++ {
		b.Fail(time.Unix(now, 0), sglog.NoOp(), IndexOptions{})
		wantS := (i + 1) * dS
		if wantS > maxS {
			wantS = maxS
		}
		probe := verifrt.IntRange("probe", 0, 100)
		allowed := b.Allow(time.Unix(now+int64(probe), 0))
		verifrt.Assert(allowed == (probe > wantS), "Allow iff strictly later than the backoff deadline")
		now += int64(verifrt.IntRange("gap", 0, 10000))
	}
	verifrt.Observe("allowedNow", b.Allow(time.Unix(now, 0)))
	b.Reset()
	verifrt.Assert(b.Allow(time.Unix(now, 0)), "Reset lifts the backoff")
	verifrt.Reach("returned")
}

// backoffQueue: the queue consults the backoff on both re-enqueue paths. With a one hour
// backoff a failed repository is not re-enqueued by AddOrUpdate or Bump while less than an
// hour has passed, and a success lifts the backoff.
func H_C30_backoffQueue() {
	q := NewQueue(time.Hour, time.Hour, sglog.NoOp())
	q.AddOrUpdate(c30Opts(1, 1))
	it, ok := q.Pop()
	verifrt.Assert(ok && it.Opts.RepoID == 1, "the added repository is yielded")
	tA := time.Now()
	q.SetIndexed(it.Opts, indexStateFail)
	bump := verifrt.Bool("bump")
	if bump {
		q.Bump([]uint32{1})
	} else {
		q.AddOrUpdate(c30Opts(1, 2))
	}
	tB := time.Now()
	verifrt.Assume(tB.Unix()-tA.Unix() < 3600)
	verifrt.Assert(q.Len() == 0, "a failed repository is not re-enqueued during its backoff")
	q.SetIndexed(c30Opts(1, 1), indexStateSuccess)
	if bump {
		q.Bump([]uint32{1})
	} else {
		q.AddOrUpdate(c30Opts(1, 1))
	}
	verifrt.Assert(q.Len() == 1, "a success lifts the backoff")
	verifrt.Observe("len", q.Len())
	verifrt.Reach("returned")
}
