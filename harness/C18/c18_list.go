//go:build verif

package search

import (
	"context"
	"errors"

	"github.com/sourcegraph/zoekt"
	"github.com/sourcegraph/zoekt/query"
	verifrt "github.com/sourcegraph/zoekt/zz_verifrt"
)

// shardedSearcher.List over fake shards on the thread model: the real fan-out (feeder channel,
// GOMAXPROCS lister goroutines, listOneShard with its crash containment) and the real aggregation.

type c18ListShard struct {
	name  string
	rl    *zoekt.RepoList
	crash bool
	fail  bool
	calls int
}

func (s *c18ListShard) Search(ctx context.Context, q query.Q, opts *zoekt.SearchOptions) (*zoekt.SearchResult, error) {
	return &zoekt.SearchResult{}, nil
}
func (s *c18ListShard) List(ctx context.Context, q query.Q, opts *zoekt.ListOptions) (*zoekt.RepoList, error) {
	s.calls++
	if s.crash {
		panic("corrupt shard")
	}
	if s.fail {
		return nil, errors.New("list failed")
	}
	return s.rl, nil
}
func (s *c18ListShard) Close()         {}
func (s *c18ListShard) String() string { return s.name }

type c18Sched struct{}

func (c18Sched) Acquire(ctx context.Context) (*process, error) {
	return &process{releaseFunc: func() {}}, nil
}

// H_C18_list: 2 (quick) / 3 (thorough) shards; each either panics, fails, or answers with a
// symbolic subset of the repositories {a, b} (RepoListFieldRepos) or of the ids {1, 2}
// (RepoListFieldReposMap), with symbolic per-repository statistics, aggregate statistics and crash
// count; the searcher is symbolically still loading or ready. For every schedule of the listers:
// an error is returned exactly when a shard failed; otherwise every repository is listed exactly
// once, its statistics are the sum of its entries over the shards, the aggregate statistics are
// the sum of the shards' aggregates with Repos = number of distinct repositories, and Crashes is
// the sum of the shards' crash counts plus one per panicking shard plus one while still loading.
func H_C18_list() {
	verifrt.ClockConcrete()
	verifrt.EnableThreads(200)
	verifrt.PreemptionBound(verifrt.Param("preemptions", -1, 1))
	n := verifrt.Param("shards", 2, 3)
	useMap := verifrt.Bool("reposMap")
	var fakes []*c18ListShard
	var ranked []*rankedShard
	wantStats := map[string]*zoekt.RepoStats{}
	wantIDs := map[uint32]bool{}
	var wantAgg zoekt.RepoStats
	wantCrashes := 0
	failed := 0
	for i := 0; i < n; i++ {
		f := &c18ListShard{name: "s" + string(rune('1'+i))}
		switch verifrt.Concretize(verifrt.IntRange("shape", 0, 2)) {
		case 1:
			f.crash = true
			wantCrashes++
		case 2:
			f.fail = true
			failed++
		default:
			rl := &zoekt.RepoList{}
			verifrt.FillInts(&rl.Stats, "agg", 0, 1000, "")
			rl.Crashes = verifrt.IntRange("crashes", 0, 3)
			wantCrashes += rl.Crashes
			agg := rl.Stats
			verifrt.AddInts(&wantAgg, &agg, "")
			if useMap {
				rl.ReposMap = zoekt.ReposMap{}
				for id := uint32(1); id <= 2; id++ {
					if verifrt.Bool("has") {
						rl.ReposMap[id] = zoekt.MinimalRepoListEntry{HasSymbols: true}
						wantIDs[id] = true
					}
				}
			} else {
				for _, name := range []string{"a", "b"} {
					if verifrt.Bool("has") {
						e := &zoekt.RepoListEntry{Repository: zoekt.Repository{Name: name}}
						verifrt.FillInts(&e.Stats, "stats", 0, 1000, "Repos") // Repos is not populated on entries
						rl.Repos = append(rl.Repos, e)
						if wantStats[name] == nil {
							wantStats[name] = &zoekt.RepoStats{}
						}
						st := e.Stats
						verifrt.AddInts(wantStats[name], &st, "")
					}
				}
			}
			f.rl = rl
		}
		fakes = append(fakes, f)
		ranked = append(ranked, &rankedShard{Searcher: f, priority: float64(n - i)})
	}
	ss := &shardedSearcher{sched: c18Sched{}}
	ss.ranked.Store(ranked)
	ready := verifrt.Bool("ready")
	if ready {
		ss.markReady()
	} else {
		wantCrashes++
	}
	got, err := ss.List(context.Background(), &query.Const{Value: true}, &zoekt.ListOptions{})
	verifrt.Assert((err != nil) == (failed > 0), "List fails exactly when a shard's List failed")
	verifrt.Observe("failed", failed)
	if err != nil {
		verifrt.Reach("returned")
		return
	}
	for _, f := range fakes {
		verifrt.Assert(f.calls == 1, "every shard is listed exactly once")
	}
	verifrt.Assert(len(got.Repos) == len(wantStats), "listing returns each repository once")
	seen := map[string]bool{}
	for _, e := range got.Repos {
		name := e.Repository.Name
		verifrt.Assert(wantStats[name] != nil && !seen[name], "listing returns each repository once (names)")
		seen[name] = true
		if w := wantStats[name]; w != nil {
			st := e.Stats
			verifrt.Assert(verifrt.EqInts(&st, w, ""), "a repository's statistics are summed over its shards")
		}
	}
	verifrt.Assert(len(got.ReposMap) == len(wantIDs), "the repository map holds each listed id once")
	for id := range got.ReposMap {
		verifrt.Assert(wantIDs[id], "the repository map holds only listed ids")
	}
	verifrt.Assert(got.Crashes == wantCrashes, "crash counts are summed; a panicking shard and a still-loading searcher count one each")
	verifrt.Assert(got.Stats.Repos == len(wantStats)+len(wantIDs), "the aggregate counts each repository once")
	gs := got.Stats
	verifrt.Assert(verifrt.EqInts(&gs, &wantAgg, "Repos"), "aggregate statistics are summed over the shards")
	verifrt.Reach("returned")
}

// metrics are outside the property (and convert the symbolic counters to float64)
func c18NoMetrics(repos []*zoekt.RepoListEntry) {}
