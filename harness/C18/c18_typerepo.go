//go:build verif

package search

import (
	"context"
	"errors"
	"sort"
	"strings"

	"github.com/sourcegraph/zoekt"
	"github.com/sourcegraph/zoekt/internal/trace"
	"github.com/sourcegraph/zoekt/query"
	verifrt "github.com/sourcegraph/zoekt/zz_verifrt"
)

// typeRepoSearcher.eval over a fake Streamer whose List answers are symbolic: every type:repo
// sub-query is replaced by exactly the set of repositories its List call returned, nested
// type:repo nodes are evaluated inside-out (the inner one is already a repository set when the
// outer one is listed), everything else is untouched, and a List error aborts the evaluation.

type c18Fake struct {
	listed []string // the query text of every List call, in order
	fail   int      // the call (0-based) that fails; -1 = none
}

func (f *c18Fake) Search(ctx context.Context, q query.Q, opts *zoekt.SearchOptions) (*zoekt.SearchResult, error) {
	return &zoekt.SearchResult{}, nil
}
func (f *c18Fake) StreamSearch(ctx context.Context, q query.Q, opts *zoekt.SearchOptions, sender zoekt.Sender) error {
	return nil
}
func (f *c18Fake) List(ctx context.Context, q query.Q, opts *zoekt.ListOptions) (*zoekt.RepoList, error) {
	call := len(f.listed)
	f.listed = append(f.listed, q.String())
	if call == f.fail {
		return nil, errors.New("list failed")
	}
	rl := &zoekt.RepoList{}
	for _, name := range []string{"r1", "r2", "r3"} {
		if verifrt.Bool("listed:" + name) {
			rl.Repos = append(rl.Repos, &zoekt.RepoListEntry{Repository: zoekt.Repository{Name: name}})
		}
	}
	c18Answers = append(c18Answers, rl)
	return rl, nil
}
func (f *c18Fake) Close()         {}
func (f *c18Fake) String() string { return "fake" }

var c18Answers []*zoekt.RepoList

func c18SetString(rl *zoekt.RepoList) string {
	var names []string
	for _, r := range rl.Repos {
		names = append(names, r.Repository.Name)
	}
	sort.Strings(names)
	return strings.Join(names, ",")
}

func c18RepoSetString(q query.Q) (string, bool) {
	rs, ok := q.(*query.RepoSet)
	if !ok {
		return "", false
	}
	var names []string
	for n, v := range rs.Set {
		if v {
			names = append(names, n)
		}
	}
	sort.Strings(names)
	return strings.Join(names, ","), true
}

func H_C18_typeRepo() {
	c18Answers = nil
	content := &query.Substring{Pattern: "needle"}
	inner := &query.Type{Type: query.TypeRepo, Child: &query.Substring{Pattern: "inner"}}
	var q query.Q
	shape := verifrt.Concretize(verifrt.IntRange("shape", 0, 4))
	switch shape {
	case 0:
		q = query.NewAnd(inner, content)
	case 1:
		q = query.NewAnd(&query.Not{Child: inner}, content)
	case 2: // nested: type:repo (type:repo inner  other)
		q = &query.Type{Type: query.TypeRepo, Child: query.NewAnd(inner, &query.Substring{Pattern: "other"})}
	case 3: // two independent sub-queries
		q = query.NewOr(inner, &query.Type{Type: query.TypeRepo, Child: &query.Substring{Pattern: "second"}})
	default: // a file-name type is not a repository sub-query
		q = query.NewAnd(&query.Type{Type: query.TypeFileName, Child: content}, content)
	}
	fake := &c18Fake{fail: verifrt.Concretize(verifrt.IntRange("failingCall", -1, 1))}
	s := &typeRepoSearcher{Streamer: fake}
	before := q.String()
	tr, ctx := trace.New(context.Background(), "verif", "")
	got, err := s.eval(ctx, tr, q)
	verifrt.Observe("calls", len(fake.listed))
	verifrt.Assert(q.String() == before, "the caller's query is not modified")
	wantCalls := []int{1, 1, 2, 2, 0}[shape]
	if fake.fail >= 0 && fake.fail < wantCalls {
		verifrt.Assert(err != nil, "a failing sub-query listing aborts the search")
		verifrt.Reach("returned")
		return
	}
	verifrt.Assert(err == nil, "evaluation succeeds when every listing succeeds")
	verifrt.Assert(len(fake.listed) == wantCalls, "each type:repo sub-query is listed exactly once")
	for _, l := range fake.listed {
		verifrt.Assert(!strings.Contains(l, "type:repo"), "a nested type:repo is already replaced when the enclosing one is listed (inside-out)")
	}
	switch shape {
	case 0:
		and := got.(*query.And)
		set, ok := c18RepoSetString(and.Children[0])
		verifrt.Assert(ok && set == c18SetString(c18Answers[0]), "the sub-query is replaced by exactly the repositories it listed")
		verifrt.Assert(and.Children[1] == query.Q(content), "the rest of the query is untouched")
	case 1:
		not := got.(*query.And).Children[0].(*query.Not)
		set, ok := c18RepoSetString(not.Child)
		verifrt.Assert(ok && set == c18SetString(c18Answers[0]), "a negated sub-query is replaced in place")
	case 2:
		set, ok := c18RepoSetString(got)
		verifrt.Assert(ok && set == c18SetString(c18Answers[1]), "the outer sub-query becomes the set its own listing returned")
		verifrt.Assert(strings.Contains(fake.listed[1], "reposet") || strings.Contains(fake.listed[1], "RepoSet") || !strings.Contains(fake.listed[1], "inner"), "the outer listing sees the inner result, not the inner sub-query")
	case 3:
		or := got.(*query.Or)
		a, oka := c18RepoSetString(or.Children[0])
		b, okb := c18RepoSetString(or.Children[1])
		verifrt.Assert(oka && okb && a == c18SetString(c18Answers[0]) && b == c18SetString(c18Answers[1]), "independent sub-queries get their own listings")
	default:
		verifrt.Assert(got.String() == before, "queries without type:repo are returned unchanged")
	}
	verifrt.Reach("returned")
}
