//go:build verif

package search

import (
	"context"
	"sort"

	"github.com/RoaringBitmap/roaring/v2"
	"github.com/grafana/regexp"

	"github.com/sourcegraph/zoekt"
	"github.com/sourcegraph/zoekt/index"
	"github.com/sourcegraph/zoekt/query"
	verifrt "github.com/sourcegraph/zoekt/zz_verifrt"
)

func c18Files(s zoekt.Searcher, q query.Q) []string {
	res, err := s.Search(context.Background(), q, &zoekt.SearchOptions{})
	if err != nil {
		panic(err)
	}
	var out []string
	for _, f := range res.Files {
		out = append(out, f.Repository+"/"+f.FileName)
	}
	sort.Strings(out)
	return out
}

// H_C18_select: four real shards - a compound shard (r1..r3, branches main and dev), a simple shard
// whose default branch is called HEAD and two shards of one repository whose default branch is called
// main - are pre-selected
// and the query rewritten by the real selectRepoSet for a query (and <repository selector> <content
// atom>). For every shard: searching it with the rewritten query if it was selected (nothing if
// it was not) gives exactly the files that searching it with the ORIGINAL query gives. The
// repository selection (which ids / names are in the set), the selector kind and the branch asked
// for are symbolic.
func H_C18_select() {
	verifrt.ClockConcrete()
	// r5 is split over two shards (a repository larger than one shard)
	searchers := []zoekt.Searcher{index.VerifThreeRepoSearcher(), index.VerifSimpleSearcher(4, "r4", "HEAD", "dev"), index.VerifSimpleSearcher(5, "r5", "main"), index.VerifSimpleSearcher(5, "r5", "main")}
	var shards []*rankedShard
	for _, s := range searchers {
		shards = append(shards, mkRankedShard(s))
	}
	var member [5]bool
	set := map[string]bool{}
	ids := roaring.New()
	for i := 0; i < 5; i++ {
		member[i] = verifrt.Bool("member")
		if member[i] {
			set["r"+string(rune('1'+i))] = true
			ids.Add(uint32(i + 1))
		}
	}
	var selector query.Q
	switch verifrt.Concretize(verifrt.IntRange("selector", 0, 3)) {
	case 0:
		selector = &query.RepoSet{Set: set}
	case 1:
		selector = &query.RepoIDs{Repos: ids}
	case 2:
		branch := []string{"HEAD", "main", "dev"}[verifrt.Concretize(verifrt.IntRange("branch", 0, 2))]
		selector = &query.BranchesRepos{List: []query.BranchRepos{{Branch: branch, Repos: ids}}}
	default:
		selector = &query.Repo{Regexp: regexp.MustCompile([]string{"r[12]", "r4", "r", "x"}[verifrt.Concretize(verifrt.IntRange("regexp", 0, 3))])}
	}
	atom := []query.Q{&query.Substring{Pattern: "needle"}, &query.Substring{Pattern: "plain"}, &query.Const{Value: true}}[verifrt.Concretize(verifrt.IntRange("atom", 0, 2))]
	q := query.NewAnd(selector, atom)
	before := q.String()
	selected, rewritten := selectRepoSet(shards, q)
	verifrt.Assert(q.String() == before, "the caller's query is not modified")
	for si, sh := range shards {
		want := c18Files(searchers[si], q)
		var got []string
		for _, sel := range selected {
			if sel == sh {
				got = c18Files(searchers[si], rewritten)
			}
		}
		verifrt.Observe("n", len(got))
		verifrt.Assert(len(got) == len(want), "pre-selecting shards and rewriting the repository filter neither adds nor removes results (count)")
		if len(got) == len(want) {
			for i := range got {
				verifrt.Assert(got[i] == want[i], "pre-selecting shards and rewriting the repository filter neither adds nor removes results (files)")
			}
		}
	}
	verifrt.Reach("returned")
}

func H_C18_twin() {
	verifrt.ClockConcrete()
	s := index.VerifSimpleSearcher(5, "r5", "main")
	verifrt.Assert(len(c18Files(s, &query.Const{Value: true})) == 77, "twin")
}
