//go:build verif

package main

import (
	"bytes"

	verifrt "github.com/sourcegraph/zoekt/zz_verifrt"
)

// H_C34_prune: after the prune step of `sync -f`, the shards left are exactly those whose repository
// (normalized source, name) is one of the desired repositories; everything else is gone, nothing
// else is touched.
func H_C34_prune() {
	paths, names, sources := c33Setup()
	desired := c33Desired()
	shards, err := readInventory("/idx")
	verifrt.Assert(err == nil, "inventory")
	var out bytes.Buffer
	verifrt.Assert(applyRemovals(planPrune(desired, shards), false, &out) == nil, "prune succeeds")
	for i, p := range paths {
		wanted := false
		for _, d := range desired {
			// several desired specs for one source: the last one wins in planPrune's table; such inputs
			// are rejected earlier by discoverRepositories (H_C34_duplicates), so compare only when unique
			if d.Source == sources[i] && d.Name == names[i] {
				wanted = true
			}
		}
		unique := true
		for a := range desired {
			for b := range desired {
				if a != b && desired[a].Source == desired[b].Source {
					unique = false
				}
			}
		}
		if unique {
			verifrt.Assert(verifrt.FSExists(p) == wanted, "after sync -f a shard stays exactly if its repository (source and name) is still wanted")
		}
	}
	verifrt.Observe("left", len(verifrt.FSList()))
	verifrt.Reach("returned")
}

// verifRoots / verifDiscovered: what resolveRoots / discoverRoot return in H_C34_duplicates
var verifDiscovered map[string][]repositorySpec

func verifResolveRoots(paths []string) ([]string, error) { return paths, nil }
func verifDiscoverRoot(root string) ([]repositorySpec, error) {
	return verifDiscovered[root], nil
}

// H_C34_duplicates: discoverRepositories (its duplicate detection and ordering; the directory walk
// itself is replaced by symbolic per-root results) fails exactly when two discovered repositories
// share a name or a source, and otherwise returns all of them sorted by name.
func H_C34_duplicates() {
	verifDiscovered = map[string][]repositorySpec{}
	roots := []string{"/r1", "/r2"}
	var all []repositorySpec
	for _, r := range roots {
		for i, n := 0, verifrt.Concretize(verifrt.IntRange("found", 0, 2)); i < n; i++ {
			spec := repositorySpec{Name: []string{"a", "b", "c"}[verifrt.Concretize(verifrt.IntRange("name", 0, 2))],
				Source: []string{"/r1/a", "/r1/b", "/r2/a"}[verifrt.Concretize(verifrt.IntRange("source", 0, 2))]}
			verifDiscovered[r] = append(verifDiscovered[r], spec)
			all = append(all, spec)
		}
	}
	got, err := discoverRepositories(roots)
	dup := false
	for a := range all {
		for b := range all {
			if a < b && (all[a].Name == all[b].Name || all[a].Source == all[b].Source) {
				dup = true
			}
		}
	}
	verifrt.Observe("dup", dup)
	verifrt.Assert((err != nil) == dup, "discovery fails exactly when two repositories would share a name or a source")
	if err == nil {
		verifrt.Assert(len(got) == len(all), "every discovered repository is returned once")
		for i := 1; i < len(got); i++ {
			verifrt.Assert(got[i-1].Name < got[i].Name, "repositories are returned sorted by name")
		}
	}
	verifrt.Reach("returned")
}

// H_C34_remove: `remove -f <selector>` deletes exactly the shards (and sidecars) of the one repository
// the selector names (by name, or by source path when no name matches); unknown and ambiguous
// selectors fail without touching anything.
func H_C34_remove() {
	paths, names, sources := c33Setup()
	selector := []string{"a", "b", "/src/a", "/src/b", "/src/a/.git", "zzz"}[verifrt.Concretize(verifrt.IntRange("selector", 0, 5))]
	before := c33Snapshot()
	var out bytes.Buffer
	err := removeRepositories("/idx", []string{selector}, false, &out)
	// reference: records = distinct (name, source); match by name first, else by normalized source
	type rec struct{ name, source string }
	var recs []rec
	for i := range paths {
		seen := false
		for _, r := range recs {
			if r.name == names[i] && r.source == sources[i] {
				seen = true
			}
		}
		if !seen {
			recs = append(recs, rec{names[i], sources[i]})
		}
	}
	var matches []rec
	for _, r := range recs {
		if r.name == selector {
			matches = append(matches, r)
		}
	}
	if len(matches) == 0 {
		sel := selector
		if len(sel) > 5 && sel[len(sel)-5:] == "/.git" {
			sel = sel[:len(sel)-5]
		}
		for _, r := range recs {
			if r.source == sel {
				matches = append(matches, r)
			}
		}
	}
	verifrt.Observe("matches", len(matches))
	if len(matches) != 1 {
		verifrt.Assert(err != nil && c33Snapshot() == before, "an unknown or ambiguous selector fails without changing the index")
	} else {
		verifrt.Assert(err == nil, "a selector naming exactly one repository succeeds")
		for i, p := range paths {
			isSel := names[i] == matches[0].name && sources[i] == matches[0].source
			verifrt.Assert(verifrt.FSExists(p) == !isSel, "remove -f deletes exactly the selected repository's shards")
			if isSel {
				verifrt.Assert(!verifrt.FSExists(p+".meta"), "and their sidecars")
			}
		}
	}
	verifrt.Reach("returned")
}

func H_C34_twin() {
	c33Setup()
	verifrt.Assert(c33Snapshot() == "never", "twin")
}
