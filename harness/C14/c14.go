//go:build verif

package gitindex

import (
	"bufio"
	"io"
	"strconv"

	"github.com/go-git/go-git/v5/plumbing"
	"github.com/go-git/go-git/v5/plumbing/filemode"
	"github.com/go-git/go-git/v5/plumbing/object"

	"github.com/sourcegraph/zoekt/ignore"
	verifrt "github.com/sourcegraph/zoekt/zz_verifrt"
)

// The zoekt-owned pieces of git indexing that do not need go-git's object graph:
// RepoWalker.handleEntry (merging tree entries of several branches into documents),
// catfileReader.Next/Read (framing of `git cat-file --batch` output) and contentSlab.alloc.

// ---- handleEntry: a symbolic sequence of tree entries (path, blob id, mode, branch)
func H_C14_handleEntry() {
	rw := &RepoWalker{Files: map[fileKey]BlobLocation{}}
	sub := map[string]plumbing.Hash{}
	ig := &ignore.Matcher{}
	paths := []string{"a.go", "dir/b.go"}
	modes := []filemode.FileMode{filemode.Regular, filemode.Executable, filemode.Symlink, filemode.Dir, filemode.Submodule}
	branches := []string{"main", "dev"}
	type ent struct {
		path   string
		id     byte
		mode   filemode.FileMode
		branch string
	}
	var seq []ent
	n := verifrt.Concretize(verifrt.IntRange("entries", 0, verifrt.Param("treeEntries", 2, 3)))
	for i := 0; i < n; i++ {
		e := ent{
			path:   paths[verifrt.Concretize(verifrt.IntRange("path", 0, 1))],
			id:     byte(1 + verifrt.Concretize(verifrt.IntRange("blob", 0, 1))),
			mode:   modes[verifrt.Concretize(verifrt.IntRange("mode", 0, len(modes)-1))],
			branch: branches[verifrt.Concretize(verifrt.IntRange("branch", 0, 1))],
		}
		seq = append(seq, e)
		var h plumbing.Hash
		h[0] = e.id
		err := rw.handleEntry(e.path, &object.TreeEntry{Name: e.path, Mode: e.mode, Hash: h}, e.branch, sub, ig)
		verifrt.Assert(err == nil, "a tree entry is accepted")
	}
	// reference: one document per distinct (path, blob) among file entries; its branch list = the
	// branches of the entries with that pair, in order of appearance
	want := map[string][]string{}
	for _, e := range seq {
		if e.mode == filemode.Regular || e.mode == filemode.Executable || e.mode == filemode.Symlink {
			k := e.path + "#" + string(rune('0'+e.id))
			want[k] = append(want[k], e.branch)
		}
	}
	verifrt.Observe("docs", len(rw.Files))
	verifrt.Assert(len(rw.Files) == len(want), "one document per distinct (path, content) pair of file entries; none for directories and submodule links")
	for k, loc := range rw.Files {
		w := want[k.Path+"#"+string(rune('0'+k.ID[0]))]
		verifrt.Assert(len(loc.Branches) == len(w), "a document's branch list has one entry per branch occurrence of that path and content")
		if len(loc.Branches) == len(w) {
			for i := range w {
				verifrt.Assert(loc.Branches[i] == w[i], "the branch list is exactly the branches containing that path with that content")
			}
		}
	}
	for _, e := range seq {
		if e.mode == filemode.Submodule {
			_, ok := sub[e.path]
			verifrt.Assert(ok, "a submodule link records its commit instead of becoming a document")
		}
	}
	verifrt.Reach("returned")
}

// ---- catfileReader over a stream delivered in short reads

type c14ShortReader struct {
	data  []byte
	chunk int
}

func (r *c14ShortReader) Read(p []byte) (int, error) {
	if len(r.data) == 0 {
		return 0, io.EOF
	}
	n := r.chunk
	if n > len(p) {
		n = len(p)
	}
	if n > len(r.data) {
		n = len(r.data)
	}
	copy(p, r.data[:n])
	r.data = r.data[n:]
	return n, nil
}

func H_C14_catfile() {
	type blob struct {
		kind    int // 0 blob, 1 missing, 2 excluded
		content []byte
	}
	var blobs []blob
	var stream []byte
	n := verifrt.Concretize(verifrt.IntRange("entries", 0, verifrt.Param("entries", 2, 3)))
	for i := 0; i < n; i++ {
		b := blob{kind: verifrt.Concretize(verifrt.IntRange("kind", 0, 2))}
		oid := "0123456789abcdef0123456789abcdef0123456" + string(rune('0'+i))
		switch b.kind {
		case 0:
			sz := verifrt.Concretize(verifrt.IntRange("size", 0, 3))
			b.content = verifrt.Bytes("content", sz) // arbitrary bytes: newlines, spaces, anything
			stream = append(stream, []byte(oid+" blob "+strconv.Itoa(sz)+"\n")...)
			stream = append(stream, b.content...)
			stream = append(stream, '\n')
		case 1:
			stream = append(stream, []byte(oid+" missing\n")...)
		case 2:
			stream = append(stream, []byte(oid+" excluded\n")...)
		}
		blobs = append(blobs, b)
	}
	src := &c14ShortReader{data: stream, chunk: verifrt.Concretize(verifrt.IntRange("pipeChunk", 1, 3))}
	cr := &catfileReader{reader: bufio.NewReaderSize(src, 16)}
	for _, b := range blobs {
		size, missing, excluded, err := cr.Next()
		verifrt.Assert(err == nil, "every entry of a well-formed stream is announced")
		verifrt.Assert(missing == (b.kind == 1) && excluded == (b.kind == 2), "missing and excluded objects are reported as such")
		if b.kind != 0 {
			continue
		}
		verifrt.Assert(size == len(b.content), "the announced size is the blob's size")
		if verifrt.Bool("skip") {
			continue // unread content must be discarded by the next Next
		}
		bufLen := verifrt.Concretize(verifrt.IntRange("readBuf", 1, 4))
		var got []byte
		for rounds := 0; rounds < 12; rounds++ {
			buf := make([]byte, bufLen)
			k, rerr := cr.Read(buf)
			got = append(got, buf[:k]...)
			verifrt.Assert(cr.pending >= 0, "the reader never owes a negative number of bytes")
			if rerr == io.EOF {
				break
			}
			verifrt.Assert(rerr == nil, "reading a blob does not fail")
		}
		verifrt.Assert(len(got) == len(b.content), "exactly the blob's bytes are delivered")
		if len(got) == len(b.content) {
			for i := range got {
				verifrt.Assert(got[i] == b.content[i], "the delivered bytes are the blob's bytes")
			}
		}
	}
	_, _, _, err := cr.Next()
	verifrt.Observe("n", n)
	verifrt.Assert(err == io.EOF, "after the last entry the reader reports the end of the stream")
	verifrt.Reach("returned")
}

// ---- contentSlab.alloc: slices handed out never alias
func H_C14_slab() {
	capacity := verifrt.Concretize(verifrt.IntRange("slabCap", 1, 6))
	s := newContentSlab(capacity)
	var out [][]byte
	n := verifrt.Concretize(verifrt.IntRange("allocs", 1, verifrt.Param("allocs", 3, 4)))
	for i := 0; i < n; i++ {
		sz := verifrt.Concretize(verifrt.IntRange("size", 0, 7))
		b := s.alloc(sz)
		verifrt.Assert(len(b) == sz && cap(b) == sz, "alloc returns a slice of exactly the requested length and capacity")
		for j := range b {
			b[j] = byte(0x10*(i+1) + j)
		}
		out = append(out, b)
	}
	for i, b := range out {
		for j := range b {
			verifrt.Assert(b[j] == byte(0x10*(i+1)+j), "writing one allocation never changes another (no aliasing)")
		}
	}
	verifrt.Observe("n", n)
	verifrt.Reach("returned")
}

func H_C14_twin() {
	s := newContentSlab(4)
	verifrt.Assert(len(s.alloc(2)) == 3, "twin")
}
