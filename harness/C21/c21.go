//go:build verif

package index

import (
	"context"
	"time"

	"github.com/sourcegraph/zoekt"
	"github.com/sourcegraph/zoekt/query"
	verifrt "github.com/sourcegraph/zoekt/zz_verifrt"
)

// verifCancelCtx: a context whose Done channel becomes ready at the cancelAt-th poll (symbolic), i.e.
// the request is cancelled at an arbitrary point of the document loop; monotone thereafter.
type verifCancelCtx struct {
	done     chan struct{}
	polls    int
	cancelAt int
	closed   bool
}

func (c *verifCancelCtx) Deadline() (time.Time, bool) { return time.Time{}, false }
func (c *verifCancelCtx) Done() <-chan struct{} {
	if !c.closed && c.polls == c.cancelAt {
		c.closed = true
		close(c.done)
	}
	c.polls++
	return c.done
}
func (c *verifCancelCtx) Err() error {
	if c.closed {
		return context.Canceled
	}
	return nil
}
func (c *verifCancelCtx) Value(key any) any { return nil }

func verifC21Query(k int) query.Q {
	switch k {
	case 0:
		return &query.Substring{Pattern: "needle"}
	case 1:
		return &query.Const{Value: true}
	case 2:
		return query.NewOr(&query.Substring{Pattern: "needle"}, &query.Substring{Pattern: "line"})
	}
	return &query.Substring{Pattern: "a.go", FileName: true}
}

func verifSameFile(a, b *zoekt.FileMatch) bool {
	if a.FileName != b.FileName || a.Repository != b.Repository || a.Score != b.Score || len(a.LineMatches) != len(b.LineMatches) ||
		len(a.ChunkMatches) != len(b.ChunkMatches) || len(a.Branches) != len(b.Branches) || a.Version != b.Version {
		return false
	}
	for i := range a.LineMatches {
		x, y := a.LineMatches[i], b.LineMatches[i]
		if x.LineNumber != y.LineNumber || string(x.Line) != string(y.Line) || len(x.LineFragments) != len(y.LineFragments) || x.Score != y.Score {
			return false
		}
		for j := range x.LineFragments {
			if x.LineFragments[j] != y.LineFragments[j] {
				return false
			}
		}
	}
	for i := range a.ChunkMatches {
		x, y := a.ChunkMatches[i], b.ChunkMatches[i]
		if string(x.Content) != string(y.Content) || len(x.Ranges) != len(y.Ranges) || x.ContentStart != y.ContentStart || x.Score != y.Score {
			return false
		}
		for j := range x.Ranges {
			if x.Ranges[j] != y.Ranges[j] {
				return false
			}
		}
	}
	for i := range a.Branches {
		if a.Branches[i] != b.Branches[i] {
			return false
		}
	}
	return true
}

// H_C21_shardLimits: per-shard match limits and cancellation drop whole files only. The same
// query runs without limits and with symbolic ShardMaxMatchCount / ShardRepoMaxMatchCount and a
// cancellation at a symbolic poll of the context: the limited result is a subsequence of the full
// one and every file it contains is identical to its unlimited version.
func H_C21_shardLimits() {
	verifrt.ClockConcrete()
	// some repositories / paths are hidden (tombstones): limits must not bring hidden files back
	b := verifThreeRepos()
	for i := 0; i < 3; i++ {
		b.repoList[i].Tombstone = verifrt.Bool("tomb")
	}
	if verifrt.Bool("pathTomb") {
		b.repoList[1].FileTombstones = map[string]struct{}{"a.go": {}}
	}
	d := verifLoad(verifWriteShard(b, "verif-compound.zoekt"))
	k := verifrt.Concretize(verifrt.IntRange("query", 0, 3))
	chunks := verifrt.Bool("chunks")
	full, err := d.Search(context.Background(), verifC21Query(k), &zoekt.SearchOptions{ChunkMatches: chunks})
	verifrt.Assert(err == nil, "unlimited search succeeds")
	opts := &zoekt.SearchOptions{ChunkMatches: chunks,
		ShardMaxMatchCount:     verifrt.IntRange("shardMax", 0, 4),
		ShardRepoMaxMatchCount: verifrt.IntRange("repoMax", 0, 3)}
	ctx := &verifCancelCtx{done: make(chan struct{}), cancelAt: verifrt.IntRange("cancelAt", 0, 9)}
	lim, err := d.Search(ctx, verifC21Query(k), opts)
	verifrt.Assert(err == nil, "limited search succeeds")
	verifrt.Observe("full", len(full.Files))
	verifrt.Observe("limited", len(lim.Files))
	j := 0
	for i := range lim.Files {
		for j < len(full.Files) && !(full.Files[j].FileName == lim.Files[i].FileName && full.Files[j].Repository == lim.Files[i].Repository) {
			j++
		}
		verifrt.Assert(j < len(full.Files), "limits only remove files: every limited file is in the unlimited result, in the same order")
		if j < len(full.Files) {
			verifrt.Assert(verifSameFile(&full.Files[j], &lim.Files[i]), "a file that is returned under limits is identical to its unlimited version")
			j++
		}
	}
	verifrt.Reach("returned")
}

func H_C21_twin() {
	verifrt.ClockConcrete()
	d := verifLoad(verifWriteShard(verifThreeRepos(), "verif-compound.zoekt"))
	res, _ := d.Search(context.Background(), verifC21Query(0), &zoekt.SearchOptions{})
	verifrt.Assert(len(res.Files) == 77, "twin")
}
