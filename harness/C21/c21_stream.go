//go:build verif

package search

import (
	"context"
	"errors"

	"github.com/sourcegraph/zoekt"
	"github.com/sourcegraph/zoekt/query"
	verifrt "github.com/sourcegraph/zoekt/zz_verifrt"
)

type c21Recorder struct {
	files [][]string
	stats []zoekt.Stats
}

func (r *c21Recorder) Send(e *zoekt.SearchResult) {
	var names []string
	for _, f := range e.Files {
		names = append(names, f.Repository+"/"+f.FileName)
	}
	r.files = append(r.files, names)
	r.stats = append(r.stats, e.Stats)
}

// ---- streamSearch over fake shards, on the thread model

type c21FakeShard struct {
	name    string
	files   int
	matches int
	calls   int
	crash   bool
	fail    bool
	sawDone bool
}

var errC21Shard = errors.New("shard failed")

func (s *c21FakeShard) Search(ctx context.Context, q query.Q, opts *zoekt.SearchOptions) (*zoekt.SearchResult, error) {
	s.calls++
	if s.crash {
		panic("corrupt shard")
	}
	if s.fail {
		return nil, errC21Shard
	}
	res := &zoekt.SearchResult{RepoURLs: map[string]string{s.name: "u"}, LineFragments: map[string]string{s.name: "l"}}
	if ctx.Err() != nil {
		// like indexData.Search: a cancelled search returns what it has (nothing), skipped
		s.sawDone = true
		res.Stats.ShardsSkipped = 1
		return res, nil
	}
	for k := 0; k < s.files; k++ {
		res.Files = append(res.Files, zoekt.FileMatch{Repository: s.name, RepositoryID: uint32(s.name[1] - '0'), FileName: "f" + string(rune('a'+k))})
	}
	res.Stats.FileCount = s.files
	res.Stats.MatchCount = s.matches
	res.Stats.ShardsScanned = 1
	return res, nil
}
func (s *c21FakeShard) List(ctx context.Context, q query.Q, opts *zoekt.ListOptions) (*zoekt.RepoList, error) {
	return &zoekt.RepoList{}, nil
}
func (s *c21FakeShard) Close()         {}
func (s *c21FakeShard) String() string { return s.name }

// H_C21_streamSearch: the sharded searcher's streamSearch (worker goroutines, search and result
// channels, priority bookkeeping, TotalMaxMatchCount stop, error stop, crash containment in
// searchOneShard) over two fake shards with GOMAXPROCS 2 (two workers). Each shard has one of five
// symbolic shapes (no file; one file, one match; two files, two matches; panics; returns an error),
// the total limit is 0..2, and the caller's context may be cancelled at an arbitrary moment.
// Quick: every choice at blocking points and selects; thorough: plus at most one preemption.
// For every schedule: streamSearch returns (no deadlock, no send on a closed channel), every shard
// is searched at most once, a searched shard's files are delivered whole and once, nothing else is
// delivered, the delivered statistics are the sum over the searched shards (a panic counts as one
// crash and does not propagate), an error is returned exactly when a searched shard failed, and
// without limit, failure or cancellation every shard is searched.
func H_C21_streamSearch() { c21StreamSearch(2, verifrt.Param("preemptions", -1, 1)) }

// H_C21_streamSearch3 (thorough only): three shards, choices at blocking points and selects only.
func H_C21_streamSearch3() { c21StreamSearch(3, -1) }

func c21StreamSearch(n, preemptions int) {
	verifrt.ClockConcrete()
	verifrt.EnableThreads(300)
	verifrt.PreemptionBound(preemptions)
	var fakes []*c21FakeShard
	var shards []*rankedShard
	for i := 0; i < n; i++ {
		f := &c21FakeShard{name: "r" + string(rune('1'+i))}
		switch verifrt.Concretize(verifrt.IntRange("shape", 0, 4)) {
		case 1:
			f.files, f.matches = 1, 1
		case 2:
			f.files, f.matches = 2, 2
		case 3:
			f.crash = true
		case 4:
			f.fail = true
		}
		fakes = append(fakes, f)
		shards = append(shards, &rankedShard{Searcher: f, priority: float64(n - i)})
	}
	limit := verifrt.Concretize(verifrt.IntRange("totalMaxMatchCount", 0, 2))
	ctx, cancel := context.WithCancel(context.Background())
	cancelled := false
	if verifrt.Bool("cancel") {
		verifrt.Go(func() {
			verifrt.Yield()
			cancelled = true
			cancel()
		})
	}
	rec := &c21Recorder{}
	proc := &process{releaseFunc: func() {}}
	done, err := streamSearch(ctx, proc, &query.Substring{Pattern: "needle"}, &zoekt.SearchOptions{TotalMaxMatchCount: limit}, shards, rec)
	if done != nil {
		done()
	}
	verifrt.Observe("events", len(rec.files))
	var total zoekt.Stats
	delivered := map[string]int{}
	ndelivered := 0
	for i := range rec.files {
		st := rec.stats[i]
		verifrt.AddInts(&total, &st, "")
		for _, f := range rec.files[i] {
			delivered[f]++
			ndelivered++
			verifrt.Assert(delivered[f] == 1, "no file is delivered twice")
		}
	}
	wantFiles, wantMatches, wantCrashes, wantScanned, wantSkipped := 0, 0, 0, 0, 0
	searched, failed := 0, 0
	for _, f := range fakes {
		verifrt.Assert(f.calls <= 1, "a shard is searched at most once")
		if f.calls == 0 {
			continue
		}
		searched++
		switch {
		case f.crash:
			wantCrashes++
		case f.fail:
			failed++
		case f.sawDone:
			wantSkipped++
		default:
			wantFiles += f.files
			wantMatches += f.matches
			wantScanned++
			for k := 0; k < f.files; k++ {
				verifrt.Assert(delivered[f.name+"/f"+string(rune('a'+k))] == 1, "the result of a searched shard is delivered whole")
			}
		}
	}
	verifrt.Assert(ndelivered == wantFiles, "only files of searched shards are delivered")
	verifrt.Assert((err != nil) == (failed > 0), "an error is returned exactly when a searched shard failed")
	if limit == 0 && failed == 0 && !cancelled {
		verifrt.Assert(searched == n, "without a total limit every selected shard is searched")
	}
	verifrt.Assert(total.FileCount == wantFiles && total.MatchCount == wantMatches && total.ShardsScanned == wantScanned && total.Crashes == wantCrashes && total.ShardsSkipped == wantSkipped,
		"the delivered statistics are the sum over the searched shards; a crashing shard counts as one crash")
	verifrt.Reach("returned")
}
