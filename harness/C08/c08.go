//go:build verif

package index

import (
	"context"
	"fmt"
	"regexp/syntax"
	"sort"

	"github.com/sourcegraph/zoekt"
	"github.com/sourcegraph/zoekt/query"
	verifrt "github.com/sourcegraph/zoekt/zz_verifrt"
)

// Style P: a real shard over a corpus in several scripts with non-trivial case folding; a
// case-insensitive literal pattern (a "special" rune at a symbolic position inside a fixed
// 2-letter context, chosen by symbolic case split) is searched once as a substring atom and once
// as the equivalent (?i) literal regexp atom: both must return the same files and ranges.

var verifC08Corpus = []verifDoc{
	{name: "kelvin.txt", content: "1 kel 2 Kel 3 KEL 4 Kel 5 KEL\n"},
	{name: "long-s.txt", content: "1 str 2 Str 3 STR 4 ſtr 5 ſTR\n"},
	{name: "sigma.txt", content: "1 σελ 2 ΣΕΛ 3 ςελ 4 ελσ 5 ελς 6 ΕΛΣ\n"},
	{name: "turkish.txt", content: "1 ist 2 Ist 3 IST 4 İst 5 ıst 6 İST\n"},
	{name: "dz.txt", content: "1 ǆel 2 ǅel 3 ǄEL\n"},
	{name: "eszett.txt", content: "1 ßel 2 ẞEL 3 ssel\n"},
	{name: "stroke.txt", content: "1 ⱥel 2 Ⱥel"}, // case pair of different byte length, the shorter form at the very end of the file
	{name: "plain.txt", content: "nothing special here\n"},
}

type verifC08Range struct {
	file       string
	start, end uint32
}

func verifC08Ranges(d *indexData, q query.Q) []verifC08Range {
	res, err := d.Search(context.Background(), q, &zoekt.SearchOptions{ChunkMatches: true})
	if err != nil {
		panic(err)
	}
	var out []verifC08Range
	for _, f := range res.Files {
		for _, cm := range f.ChunkMatches {
			for _, r := range cm.Ranges {
				out = append(out, verifC08Range{f.FileName, r.Start.ByteOffset, r.End.ByteOffset})
			}
		}
	}
	sort.Slice(out, func(i, j int) bool {
		if out[i].file != out[j].file {
			return out[i].file < out[j].file
		}
		return out[i].start < out[j].start
	})
	return out
}

var verifC08Runes = []rune{'k', 'K', 0x212A, 's', 'S', 0x17F, 0x3C3, 0x3C2, 0x3A3, 'i', 'I', 0x130, 0x131, 0x1C6, 0x1C5, 0x1C4, 0xDF, 0x1E9E, 0x23A, 0x2C65}
var verifC08Contexts = [][2]rune{{'e', 'l'}, {'E', 'L'}, {'t', 'r'}, {'s', 't'}, {0x3B5, 0x3BB}, {0x395, 0x39B}}

func H_C08_routes() {
	verifrt.ClockConcrete()
	d := verifSimpleShard(verifRepo(1, "r1", "main"), verifC08Corpus)
	r := verifC08Runes[verifrt.Concretize(verifrt.IntRange("rune", 0, len(verifC08Runes)-1))]
	c := verifC08Contexts[verifrt.Concretize(verifrt.IntRange("context", 0, len(verifC08Contexts)-1))]
	var pat []rune
	switch verifrt.Concretize(verifrt.IntRange("position", 0, 1)) {
	case 0:
		pat = []rune{r, c[0], c[1]}
	default:
		pat = []rune{c[0], c[1], r}
	}
	lit := &query.Substring{Pattern: string(pat), CaseSensitive: false, Content: true}
	// the same literal as a regexp that is NOT a single literal node (a concatenation of two literal
	// pieces), so that it is evaluated by the regexp engine instead of being turned back into a
	// substring atom by regexpToMatchTreeRecursive
	re := &query.Regexp{Regexp: &syntax.Regexp{Op: syntax.OpConcat, Flags: syntax.FoldCase, Sub: []*syntax.Regexp{
		{Op: syntax.OpLiteral, Flags: syntax.FoldCase, Rune: pat[:2]},
		{Op: syntax.OpLiteral, Flags: syntax.FoldCase, Rune: pat[2:]},
	}}, CaseSensitive: false, Content: true}
	a := verifC08Ranges(d, lit)
	b := verifC08Ranges(d, re)
	verifrt.Observe("literal", len(a))
	verifrt.Observe("regexp", len(b))
	// the label names the exact pattern and both answers, so that a listed known disagreement is one
	// specific input with one specific outcome
	show := func(rs []verifC08Range) string {
		out := ""
		for _, r := range rs {
			out += fmt.Sprintf(" %s:%d-%d", r.file, r.start, r.end)
		}
		return "[" + out + " ]"
	}
	label := fmt.Sprintf("the literal and the regexp form of a case-insensitive pattern return the same matches (pattern U+%04X U+%04X U+%04X: literal %s, regexp %s)", pat[0], pat[1], pat[2], show(a), show(b))
	same := len(a) == len(b)
	if same {
		for i := range a {
			if a[i] != b[i] {
				same = false
			}
		}
	}
	verifrt.Debug("literal vs regexp", fmt.Sprintf("%q: %s vs %s", string(pat), show(a), show(b)))
	verifrt.Assert(same, label)
	verifrt.Reach("returned")
}

func H_C08_twin() {
	verifrt.ClockConcrete()
	d := verifSimpleShard(verifRepo(1, "r1", "main"), verifC08Corpus)
	verifrt.Assert(len(verifC08Ranges(d, &query.Substring{Pattern: "kel", Content: true})) == 77, "twin")
}
