//go:build verif

package query

import (
	"regexp/syntax"

	"github.com/grafana/regexp"

	webserverv1 "github.com/sourcegraph/zoekt/grpc/protos/zoekt/webserver/v1"
	verifrt "github.com/sourcegraph/zoekt/zz_verifrt"
)

// concrete pattern pool (regexp parsing of a symbolic string is outside the bound);
// index 4 is not a valid regexp and is only used on the wire side.
var c24Patterns = []string{"", "a", "a.*b", "(?i)fo+", "("}

func c24Str(name string) string {
	l := verifrt.Concretize(verifrt.IntRange(name+"len", 0, verifrt.Param("strlen", 1, 2)))
	return verifrt.String(name, l)
}

const c24Leaves = 12 // kinds 0..11 have no children

// c24Query builds a query tree: the node kind is case-split, every scalar field is symbolic.
// Kinds follow the node types of query.go that the RPC layer may carry (caseQ is internal;
// BranchesRepos/RepoIDs carry roaring bitmaps and are outside this harness).
func c24Query(depth int) Q { return c24QueryK(depth, c24Leaves-1) }

// c24QueryK: as c24Query, with leaf kinds limited to 0..leafHi at the last level.
func c24QueryK(depth, leafHi int) Q {
	hi := 17
	if depth <= 1 {
		hi = leafHi
	}
	switch verifrt.Concretize(verifrt.IntRange("kind", 0, hi)) {
	case 0:
		return RawConfig(verifrt.U64("rc") & uint64(RcOnlyPublic|RcOnlyPrivate|RcOnlyForks|RcNoForks|RcOnlyArchived|RcNoArchived))
	case 1:
		re, err := syntax.Parse(c24Patterns[verifrt.Concretize(verifrt.IntRange("pat", 0, 3))], regexpFlags)
		verifrt.Assume(err == nil)
		return &Regexp{Regexp: re, FileName: verifrt.Bool("fn"), Content: verifrt.Bool("ct"), CaseSensitive: verifrt.Bool("cs")}
	case 2:
		return &Language{Language: c24Str("lang")}
	case 3:
		return &Const{Value: verifrt.Bool("const")}
	case 4:
		return &Repo{Regexp: regexp.MustCompile(c24Patterns[verifrt.Concretize(verifrt.IntRange("pat", 0, 3))])}
	case 5:
		return &RepoRegexp{Regexp: regexp.MustCompile(c24Patterns[verifrt.Concretize(verifrt.IntRange("pat", 0, 3))])}
	case 6:
		set := map[string]bool{}
		for i, n := 0, verifrt.Concretize(verifrt.IntRange("nset", 0, 2)); i < n; i++ {
			set[c24Str("repo")] = verifrt.Bool("inset")
		}
		return &RepoSet{Set: set}
	case 7:
		set := map[string]struct{}{}
		for i, n := 0, verifrt.Concretize(verifrt.IntRange("nset", 0, 2)); i < n; i++ {
			set[c24Str("file")] = struct{}{}
		}
		return &FileNameSet{Set: set}
	case 8:
		return &Substring{Pattern: c24Str("pat"), CaseSensitive: verifrt.Bool("cs"), FileName: verifrt.Bool("fn"), Content: verifrt.Bool("ct")}
	case 9:
		return &Branch{Pattern: c24Str("branch"), Exact: verifrt.Bool("exact")}
	case 10:
		return &Meta{Field: c24Str("field"), Value: regexp.MustCompile(c24Patterns[verifrt.Concretize(verifrt.IntRange("pat", 0, 3))])}
	case 11:
		return &Const{Value: true}
	case 12:
		return &Symbol{Expr: c24Query(depth - 1)}
	case 13:
		return &Type{Child: c24Query(depth - 1), Type: uint8(verifrt.IntRange("type", 0, 2))}
	case 14:
		return &Not{Child: c24Query(depth - 1)}
	case 15:
		return &Boost{Child: c24Query(depth - 1), Boost: float64(verifrt.IntRange("boost", -4, 4)) / 2}
	case 16:
		var ch []Q
		n := verifrt.Concretize(verifrt.IntRange("nch", 0, 2))
		leafHi := c24Leaves - 1
		if n == 2 {
			// pairs of children: leaf kinds RawConfig, Regexp, Language, Const, Repo in the quick tier
			leafHi = verifrt.Param("pairLeafHi", 4, c24Leaves-1)
		}
		for i := 0; i < n; i++ {
			ch = append(ch, c24QueryK(depth-1, leafHi))
		}
		return &And{Children: ch}
	default:
		var ch []Q
		n := verifrt.Concretize(verifrt.IntRange("nch", 0, 2))
		leafHi := c24Leaves - 1
		if n == 2 {
			// pairs of children: leaf kinds RawConfig, Regexp, Language, Const, Repo in the quick tier
			leafHi = verifrt.Param("pairLeafHi", 4, c24Leaves-1)
		}
		for i := 0; i < n; i++ {
			ch = append(ch, c24QueryK(depth-1, leafHi))
		}
		return &Or{Children: ch}
	}
}

// c24Eq: structural equality up to the representation of empty collections.
func c24Eq(a, b Q) bool {
	switch x := a.(type) {
	case RawConfig:
		y, ok := b.(RawConfig)
		return ok && x == y
	case *Regexp:
		y, ok := b.(*Regexp)
		if !ok {
			return false
		}
		return verifrt.And(x.Regexp.String() == y.Regexp.String(), verifrt.And(x.FileName == y.FileName, verifrt.And(x.Content == y.Content, x.CaseSensitive == y.CaseSensitive)))
	case *Language:
		y, ok := b.(*Language)
		return ok && x.Language == y.Language
	case *Const:
		y, ok := b.(*Const)
		return ok && x.Value == y.Value
	case *Repo:
		y, ok := b.(*Repo)
		return ok && x.Regexp.String() == y.Regexp.String()
	case *RepoRegexp:
		y, ok := b.(*RepoRegexp)
		return ok && x.Regexp.String() == y.Regexp.String()
	case *RepoSet:
		y, ok := b.(*RepoSet)
		if !ok || len(x.Set) != len(y.Set) {
			return false
		}
		eq := true
		for k, v := range x.Set {
			w, have := y.Set[k]
			eq = verifrt.And(eq, verifrt.And(have, v == w))
		}
		return eq
	case *FileNameSet:
		y, ok := b.(*FileNameSet)
		if !ok || len(x.Set) != len(y.Set) {
			return false
		}
		eq := true
		for k := range x.Set {
			_, have := y.Set[k]
			eq = verifrt.And(eq, have)
		}
		return eq
	case *Substring:
		y, ok := b.(*Substring)
		if !ok {
			return false
		}
		return verifrt.And(x.Pattern == y.Pattern, verifrt.And(x.FileName == y.FileName, verifrt.And(x.Content == y.Content, x.CaseSensitive == y.CaseSensitive)))
	case *Branch:
		y, ok := b.(*Branch)
		if !ok {
			return false
		}
		return verifrt.And(x.Pattern == y.Pattern, x.Exact == y.Exact)
	case *Meta:
		y, ok := b.(*Meta)
		if !ok {
			return false
		}
		return verifrt.And(x.Field == y.Field, x.Value.String() == y.Value.String())
	case *Symbol:
		y, ok := b.(*Symbol)
		return ok && c24Eq(x.Expr, y.Expr)
	case *Type:
		y, ok := b.(*Type)
		if !ok {
			return false
		}
		return verifrt.And(x.Type == y.Type, c24Eq(x.Child, y.Child))
	case *Not:
		y, ok := b.(*Not)
		return ok && c24Eq(x.Child, y.Child)
	case *Boost:
		y, ok := b.(*Boost)
		if !ok {
			return false
		}
		return verifrt.And(x.Boost == y.Boost, c24Eq(x.Child, y.Child))
	case *And:
		y, ok := b.(*And)
		if !ok || len(x.Children) != len(y.Children) {
			return false
		}
		eq := true
		for i := range x.Children {
			eq = verifrt.And(eq, c24Eq(x.Children[i], y.Children[i]))
		}
		return eq
	case *Or:
		y, ok := b.(*Or)
		if !ok || len(x.Children) != len(y.Children) {
			return false
		}
		eq := true
		for i := range x.Children {
			eq = verifrt.And(eq, c24Eq(x.Children[i], y.Children[i]))
		}
		return eq
	}
	return false
}

// every query tree survives QToProto ; QFromProto unchanged, and neither direction panics
func H_C24_queryRoundtrip() {
	q := c24Query(verifrt.Param("depth", 2, 2))
	p := QToProto(q)
	verifrt.Assert(p != nil, "QToProto yields a message")
	q2, err := QFromProto(p)
	verifrt.Assert(err == nil, "the wire form of a query decodes")
	verifrt.Assert(q2 != nil, "decoding yields a query")
	verifrt.Assert(c24Eq(q, q2), "query survives the wire round trip")
	verifrt.Observe("ok", true)
	verifrt.Reach("returned")
}

func H_C24_twin() {
	H_C24_queryRoundtrip()
	verifrt.Assert(false, "twin")
}

// c24Wire builds a wire query as protobuf decoding can produce it: any message-typed
// singular field may be unset (nil), the oneof may be unset, a set oneof member always holds a
// message, repeated message fields hold messages (possibly empty), enum fields are arbitrary int32.
func c24Wire(depth int, mayBeNil bool) *webserverv1.Q { return c24WireK(depth, mayBeNil, 13) }

func c24WireK(depth int, mayBeNil bool, leafHi int) *webserverv1.Q {
	if mayBeNil && verifrt.Bool("unset") {
		return nil
	}
	hi := 19
	if depth <= 1 {
		hi = leafHi
	}
	switch verifrt.Concretize(verifrt.IntRange("wkind", 0, hi)) {
	case 0:
		return &webserverv1.Q{} // no member of the oneof set
	case 1:
		var flags []webserverv1.RawConfig_Flag
		for i, n := 0, verifrt.Concretize(verifrt.IntRange("nflags", 0, 2)); i < n; i++ {
			flags = append(flags, webserverv1.RawConfig_Flag(verifrt.I32("flag")))
		}
		return &webserverv1.Q{Query: &webserverv1.Q_RawConfig{RawConfig: &webserverv1.RawConfig{Flags: flags}}}
	case 2:
		return &webserverv1.Q{Query: &webserverv1.Q_Regexp{Regexp: &webserverv1.Regexp{Regexp: c24Patterns[verifrt.Concretize(verifrt.IntRange("pat", 0, 4))], FileName: verifrt.Bool("fn"), Content: verifrt.Bool("ct"), CaseSensitive: verifrt.Bool("cs")}}}
	case 3:
		return &webserverv1.Q{Query: &webserverv1.Q_Language{Language: &webserverv1.Language{Language: c24Str("lang")}}}
	case 4:
		return &webserverv1.Q{Query: &webserverv1.Q_Const{Const: verifrt.Bool("const")}}
	case 5:
		return &webserverv1.Q{Query: &webserverv1.Q_Repo{Repo: &webserverv1.Repo{Regexp: c24Patterns[verifrt.Concretize(verifrt.IntRange("pat", 0, 4))]}}}
	case 6:
		return &webserverv1.Q{Query: &webserverv1.Q_RepoRegexp{RepoRegexp: &webserverv1.RepoRegexp{Regexp: c24Patterns[verifrt.Concretize(verifrt.IntRange("pat", 0, 4))]}}}
	case 7:
		return &webserverv1.Q{Query: &webserverv1.Q_RepoSet{RepoSet: &webserverv1.RepoSet{}}}
	case 8:
		return &webserverv1.Q{Query: &webserverv1.Q_FileNameSet{FileNameSet: &webserverv1.FileNameSet{Set: []string{c24Str("file")}}}}
	case 9:
		return &webserverv1.Q{Query: &webserverv1.Q_Substring{Substring: &webserverv1.Substring{Pattern: c24Str("pat"), CaseSensitive: verifrt.Bool("cs")}}}
	case 10:
		return &webserverv1.Q{Query: &webserverv1.Q_Branch{Branch: &webserverv1.Branch{Pattern: c24Str("branch"), Exact: verifrt.Bool("exact")}}}
	case 11:
		return &webserverv1.Q{Query: &webserverv1.Q_Meta{Meta: &webserverv1.Meta{Key: c24Str("key"), Value: c24Patterns[verifrt.Concretize(verifrt.IntRange("pat", 0, 4))]}}}
	case 12:
		return &webserverv1.Q{Query: &webserverv1.Q_And{And: &webserverv1.And{}}}
	case 13:
		return &webserverv1.Q{Query: &webserverv1.Q_Or{Or: &webserverv1.Or{}}}
	case 14:
		return &webserverv1.Q{Query: &webserverv1.Q_Symbol{Symbol: &webserverv1.Symbol{Expr: c24Wire(depth-1, true)}}}
	case 15:
		return &webserverv1.Q{Query: &webserverv1.Q_Type{Type: &webserverv1.Type{Child: c24Wire(depth-1, true), Type: webserverv1.Type_Kind(verifrt.I32("type"))}}}
	case 16:
		return &webserverv1.Q{Query: &webserverv1.Q_Not{Not: &webserverv1.Not{Child: c24Wire(depth-1, true)}}}
	case 17:
		return &webserverv1.Q{Query: &webserverv1.Q_Boost{Boost: &webserverv1.Boost{Child: c24Wire(depth-1, true)}}}
	case 18:
		var ch []*webserverv1.Q
		n := verifrt.Concretize(verifrt.IntRange("nch", 1, 2))
		leafHi := 13
		if n == 2 {
			leafHi = verifrt.Param("wpairLeafHi", 6, 13) // pairs: unset oneof, RawConfig, Regexp, Language, Const, Repo, RepoRegexp in the quick tier
		}
		for i := 0; i < n; i++ {
			ch = append(ch, c24WireK(depth-1, false, leafHi))
		}
		return &webserverv1.Q{Query: &webserverv1.Q_And{And: &webserverv1.And{Children: ch}}}
	default:
		var ch []*webserverv1.Q
		n := verifrt.Concretize(verifrt.IntRange("nch", 1, 2))
		leafHi := 13
		if n == 2 {
			leafHi = verifrt.Param("wpairLeafHi", 6, 13) // pairs: unset oneof, RawConfig, Regexp, Language, Const, Repo, RepoRegexp in the quick tier
		}
		for i := 0; i < n; i++ {
			ch = append(ch, c24WireK(depth-1, false, leafHi))
		}
		return &webserverv1.Q{Query: &webserverv1.Q_Or{Or: &webserverv1.Or{Children: ch}}}
	}
}

// decoding any well-formed wire query, including ones with unset fields, yields a query or an error
func H_C24_fromProtoTotal() {
	p := c24Wire(verifrt.Param("wdepth", 2, 2), true)
	q, err := QFromProto(p)
	// (on error the first result may be a typed nil pointer inside the interface; callers test err)
	if err == nil {
		verifrt.Assert(q != nil, "QFromProto yields a query or an error")
		verifrt.Assert(QToProto(q) != nil, "a decoded query converts back without panicking")
	}
	verifrt.Observe("err", err != nil)
	verifrt.Reach("returned")
}
