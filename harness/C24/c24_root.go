//go:build verif

package zoekt

import (
	webserverv1 "github.com/sourcegraph/zoekt/grpc/protos/zoekt/webserver/v1"
	verifrt "github.com/sourcegraph/zoekt/zz_verifrt"
)

const c24Durations = "Duration,Wait,MatchTreeConstruction,MatchTreeSearch,MaxWallTime,FlushWallTime"

// option, statistics and location values survive ToProto ; FromProto for every value of their
// scalar fields (field lists are taken from the types, so a field added later is covered).
// Durations stay zero: durationpb is a dependency (blackholed) and its seconds/nanos split
// is a division by 1e9 outside the solver's reach.
func H_C24_valuesRoundtrip() {
	// Location / Range
	var r Range
	verifrt.FillInts(&r, "range", 0, 1<<32-1, "")
	r2 := RangeFromProto(r.ToProto())
	verifrt.Assert(verifrt.EqInts(&r, &r2, ""), "Range survives the wire round trip")

	// LineFragmentMatch, with and without symbol information
	lfm := LineFragmentMatch{LineOffset: verifrt.Int("lo"), Offset: verifrt.U32("off"), MatchLength: verifrt.Int("ml")}
	hasSym := verifrt.Bool("sym")
	if hasSym {
		lfm.SymbolInfo = &Symbol{Sym: verifrt.String("s", 1), Kind: verifrt.String("k", 1), Parent: verifrt.String("p", 1), ParentKind: verifrt.String("pk", 1)}
	}
	lfm2 := LineFragmentMatchFromProto(lfm.ToProto())
	verifrt.Assert(verifrt.And(lfm2.LineOffset == lfm.LineOffset, verifrt.And(lfm2.Offset == lfm.Offset, lfm2.MatchLength == lfm.MatchLength)), "LineFragmentMatch survives the wire round trip")
	verifrt.Assert((lfm2.SymbolInfo != nil) == hasSym, "symbol information is kept or stays absent")
	if hasSym && lfm2.SymbolInfo != nil {
		a, b := lfm.SymbolInfo, lfm2.SymbolInfo
		verifrt.Assert(verifrt.And(verifrt.And(a.Sym == b.Sym, a.Kind == b.Kind), verifrt.And(a.Parent == b.Parent, a.ParentKind == b.ParentKind)), "symbol information survives the wire round trip")
	}

	// Stats: every counter, and the flush reason
	var st Stats
	verifrt.FillInts(&st, "stats", -(1 << 62), 1<<62, c24Durations+",FlushReason")
	fr := verifrt.U8("flushReason")
	verifrt.Assume(verifrt.Or(verifrt.Or(fr == 0, fr == uint8(FlushReasonTimerExpired)), verifrt.Or(fr == uint8(FlushReasonFinalFlush), fr == uint8(FlushReasonMaxSize))))
	st.FlushReason = FlushReason(fr)
	st2 := StatsFromProto(st.ToProto())
	verifrt.Assert(verifrt.EqInts(&st, &st2, ""), "Stats survive the wire round trip")

	// RepoStats
	var rs RepoStats
	verifrt.FillInts(&rs, "repostats", 0, 1<<62, "")
	rs2 := RepoStatsFromProto(rs.ToProto())
	verifrt.Assert(verifrt.EqInts(&rs, &rs2, ""), "RepoStats survive the wire round trip")

	// Progress
	pr := Progress{Priority: float64(verifrt.IntRange("prio", -8, 8)) / 4, MaxPendingPriority: float64(verifrt.IntRange("pend", -8, 8)) / 4}
	pr2 := ProgressFromProto(pr.ToProto())
	verifrt.Assert(verifrt.And(pr.Priority == pr2.Priority, pr.MaxPendingPriority == pr2.MaxPendingPriority), "Progress survives the wire round trip")

	// SearchOptions (SpanContext travels as gRPC metadata, not in the message)
	var so SearchOptions
	verifrt.FillInts(&so, "opts", -(1 << 62), 1<<62, c24Durations)
	so.EstimateDocCount, so.Whole, so.ChunkMatches = verifrt.Bool("edc"), verifrt.Bool("whole"), verifrt.Bool("chunk")
	so.UseBM25Scoring, so.Trace, so.DebugScore = verifrt.Bool("bm25"), verifrt.Bool("trace"), verifrt.Bool("debug")
	so2 := SearchOptionsFromProto(so.ToProto())
	verifrt.Assert(so2 != nil, "options decode")
	verifrt.Assert(verifrt.EqInts(&so, so2, ""), "SearchOptions counters survive the wire round trip")
	verifrt.Assert(verifrt.And(verifrt.And(so.EstimateDocCount == so2.EstimateDocCount, so.Whole == so2.Whole), verifrt.And(so.ChunkMatches == so2.ChunkMatches, verifrt.And(so.UseBM25Scoring == so2.UseBM25Scoring, verifrt.And(so.Trace == so2.Trace, so.DebugScore == so2.DebugScore)))), "SearchOptions flags survive the wire round trip")

	// ListOptions: both defined fields
	lo := ListOptions{Field: RepoListFieldRepos}
	if verifrt.Bool("reposMap") {
		lo.Field = RepoListFieldReposMap
	}
	lo2 := ListOptionsFromProto(lo.ToProto())
	verifrt.Assert(lo2 != nil && lo2.Field == lo.Field, "ListOptions survive the wire round trip")
	verifrt.Observe("ok", true)
	verifrt.Reach("returned")
}

// request side with unset or partially set option messages: decoded without panicking
func H_C24_optionsTotal() {
	var sp *webserverv1.SearchOptions
	if verifrt.Bool("haveSearchOpts") {
		sp = &webserverv1.SearchOptions{ShardMaxMatchCount: verifrt.I64("smm"), NumContextLines: verifrt.I64("ctx"), ChunkMatches: verifrt.Bool("chunk")} // duration sub-messages unset
	}
	so := SearchOptionsFromProto(sp)
	verifrt.Assert((so == nil) == (sp == nil), "unset options stay unset")
	if so != nil {
		verifrt.Assert(so.MaxWallTime == 0 && so.FlushWallTime == 0, "unset durations decode as zero")
		verifrt.Assert(int64(so.ShardMaxMatchCount) == sp.ShardMaxMatchCount, "set fields are taken over")
	}
	var lp *webserverv1.ListOptions
	if verifrt.Bool("haveListOpts") {
		lp = &webserverv1.ListOptions{Field: webserverv1.ListOptions_RepoListField(verifrt.I32("field"))}
	}
	lo := ListOptionsFromProto(lp)
	verifrt.Assert((lo == nil) == (lp == nil), "unset list options stay unset")
	_, _ = lo.GetField()
	verifrt.Observe("ok", true)
	verifrt.Reach("returned")
}
