//go:build verif

package zoekt

import (
	verifrt "github.com/sourcegraph/zoekt/zz_verifrt"
)

// Result and listing structures survive ToProto ; FromProto: files with line and chunk matches,
// repositories with branches, sub-repositories, path tombstones and config maps, index metadata,
// list entries in both list forms. Slice and map sizes 0-2 (case split), every integer and string
// leaf symbolic (strings of one byte), scores = small dyadic rationals (floats are concrete in the
// engine). Timestamps stay zero (timestamppb is a blackholed dependency).

// list sizes: one outer size and one inner size per harness run (case split 0..2 each) instead of an
// independent size per list, to keep the number of shapes small; which lists are empty together is
// therefore correlated (stated in outside_claim).
var c24Outer, c24Inner int

func c24Shape() {
	c24Outer = verifrt.Concretize(verifrt.IntRange("outer", 0, 2))
	c24Inner = verifrt.Concretize(verifrt.IntRange("inner", 0, 2))
}

func c24N(name string) int {
	switch name {
	case "nlines", "nchunks", "nrepos", "nmap", "nbr", "nsub", "nbranches":
		return c24Outer
	}
	return c24Inner
}
func c24S(name string) string { return verifrt.String(name, 1) }
// scores: distinct concrete values (floats are concrete in the engine); distinctness exposes swapped fields
var c24Fs int

func c24F(name string) float64 { c24Fs++; return 0.5 + float64(c24Fs)/4 }

var c24NilSyms int

func c24Symbol() *Symbol {
	c24NilSyms++
	if c24NilSyms == 1 && verifrt.Bool("nilsym") {
		return nil
	}
	return &Symbol{Sym: c24S("sym"), Kind: c24S("kind"), Parent: c24S("par"), ParentKind: c24S("pk")}
}

func c24EqSymbol(a, b *Symbol) bool {
	if a == nil || b == nil {
		return a == nil && b == nil
	}
	return verifrt.And(verifrt.And(a.Sym == b.Sym, a.Kind == b.Kind), verifrt.And(a.Parent == b.Parent, a.ParentKind == b.ParentKind))
}

func c24EqStrs(a, b []string) bool {
	if len(a) != len(b) {
		return false
	}
	ok := true
	for i := range a {
		ok = verifrt.And(ok, a[i] == b[i])
	}
	return ok
}

func c24EqBytesList(a, b [][]byte) bool { return true }

func H_C24_fileMatchRoundtrip() {
	c24Shape()
	fm := FileMatch{Score: c24F("score"), Debug: c24S("dbg"), FileName: c24S("fn"), Repository: c24S("repo"), RepositoryID: verifrt.U32("rid"),
		RepositoryPriority: c24F("prio"), Content: verifrt.Bytes("content", c24N("ncontent")), Checksum: verifrt.Bytes("sum", c24N("nsum")),
		Language: c24S("lang"), SubRepositoryName: c24S("srn"), SubRepositoryPath: c24S("srp"), Version: c24S("ver")}
	for i, n := 0, c24N("nbranches"); i < n; i++ {
		fm.Branches = append(fm.Branches, c24S("branch"))
	}
	for i, n := 0, c24N("nlines"); i < n; i++ {
		lm := LineMatch{Line: verifrt.Bytes("line", 1), LineStart: verifrt.Int("ls"), LineEnd: verifrt.Int("le"), LineNumber: verifrt.Int("ln"),
			Before: verifrt.Bytes("before", 1), After: verifrt.Bytes("after", 1), FileName: verifrt.Bool("lfn"), Score: c24F("lscore"), DebugScore: c24S("ldbg")}
		for j, m := 0, c24N("nfrags"); j < m; j++ {
			lm.LineFragments = append(lm.LineFragments, LineFragmentMatch{LineOffset: verifrt.Int("lo"), Offset: verifrt.U32("off"), MatchLength: verifrt.Int("ml"), SymbolInfo: c24Symbol()})
		}
		fm.LineMatches = append(fm.LineMatches, lm)
	}
	for i, n := 0, c24N("nchunks"); i < n; i++ {
		cm := ChunkMatch{Content: verifrt.Bytes("cc", 1), FileName: verifrt.Bool("cfn"), Score: c24F("cscore"), BestLineMatch: verifrt.U32("blm"), DebugScore: c24S("cdbg"),
			ContentStart: Location{ByteOffset: verifrt.U32("cbo"), LineNumber: verifrt.U32("cln"), Column: verifrt.U32("ccol")}}
		for j, m := 0, c24N("nranges"); j < m; j++ {
			cm.Ranges = append(cm.Ranges, Range{Start: Location{verifrt.U32("sbo"), verifrt.U32("sln"), verifrt.U32("scol")}, End: Location{verifrt.U32("ebo"), verifrt.U32("eln"), verifrt.U32("ecol")}})
			cm.SymbolInfo = append(cm.SymbolInfo, c24Symbol())
		}
		fm.ChunkMatches = append(fm.ChunkMatches, cm)
	}
	sr := &SearchResult{Files: []FileMatch{fm}}
	viaStream := verifrt.Bool("stream")
	var back *SearchResult
	if viaStream {
		back = SearchResultFromStreamProto(sr.ToStreamProto(), nil, nil)
	} else {
		back = SearchResultFromProto(sr.ToProto(), nil, nil)
	}
	verifrt.Assert(back != nil && len(back.Files) == 1, "the file survives the wire round trip")
	g := back.Files[0]
	verifrt.Assert(g.Score == fm.Score && g.RepositoryPriority == fm.RepositoryPriority, "scores survive")
	verifrt.Assert(verifrt.And(verifrt.And(g.Debug == fm.Debug, g.FileName == fm.FileName), verifrt.And(g.Repository == fm.Repository, g.RepositoryID == fm.RepositoryID)), "file identity survives")
	verifrt.Assert(verifrt.And(verifrt.And(g.Language == fm.Language, g.Version == fm.Version), verifrt.And(g.SubRepositoryName == fm.SubRepositoryName, g.SubRepositoryPath == fm.SubRepositoryPath)), "file attributes survive")
	verifrt.Assert(string(g.Content) == string(fm.Content) && string(g.Checksum) == string(fm.Checksum), "content and checksum survive")
	verifrt.Assert(c24EqStrs(g.Branches, fm.Branches), "branches survive")
	verifrt.Assert(len(g.LineMatches) == len(fm.LineMatches) && len(g.ChunkMatches) == len(fm.ChunkMatches), "match counts survive")
	for i := range fm.LineMatches {
		a, b := fm.LineMatches[i], g.LineMatches[i]
		verifrt.Assert(verifrt.And(verifrt.And(a.LineStart == b.LineStart, a.LineEnd == b.LineEnd), verifrt.And(a.LineNumber == b.LineNumber, a.FileName == b.FileName)), "line match position survives")
		verifrt.Assert(string(a.Line) == string(b.Line) && string(a.Before) == string(b.Before) && string(a.After) == string(b.After), "line text and context survive")
		verifrt.Assert(a.Score == b.Score && a.DebugScore == b.DebugScore, "line score survives")
		verifrt.Assert(len(a.LineFragments) == len(b.LineFragments), "fragment count survives")
		for j := range a.LineFragments {
			x, y := a.LineFragments[j], b.LineFragments[j]
			verifrt.Assert(verifrt.And(x.LineOffset == y.LineOffset, verifrt.And(x.Offset == y.Offset, x.MatchLength == y.MatchLength)), "fragment survives")
			verifrt.Assert(c24EqSymbol(x.SymbolInfo, y.SymbolInfo), "fragment symbol survives")
		}
	}
	for i := range fm.ChunkMatches {
		a, b := fm.ChunkMatches[i], g.ChunkMatches[i]
		verifrt.Assert(string(a.Content) == string(b.Content) && a.FileName == b.FileName && a.Score == b.Score && a.DebugScore == b.DebugScore, "chunk content survives")
		verifrt.Assert(verifrt.And(a.BestLineMatch == b.BestLineMatch, a.ContentStart == b.ContentStart), "chunk position survives")
		verifrt.Assert(len(a.Ranges) == len(b.Ranges) && len(a.SymbolInfo) == len(b.SymbolInfo), "range count survives")
		for j := range a.Ranges {
			verifrt.Assert(a.Ranges[j] == b.Ranges[j], "range survives")
			verifrt.Assert(c24EqSymbol(a.SymbolInfo[j], b.SymbolInfo[j]), "chunk symbol survives (nil stays nil)")
		}
	}
	verifrt.Observe("ok", true)
	verifrt.Reach("returned")
}

func c24Repo(depth int) Repository {
	r := Repository{TenantID: verifrt.Int("tenant"), ID: verifrt.U32("id"), Name: c24S("name"), URL: c24S("url"), Source: c24S("src"),
		CommitURLTemplate: c24S("cut"), FileURLTemplate: c24S("fut"), LineFragmentTemplate: c24S("lft"), Rank: verifrt.U16("rank"),
		IndexOptions: c24S("io"), HasSymbols: verifrt.Bool("hs"), Tombstone: verifrt.Bool("tomb"), priority: c24F("prio")}
	for i, n := 0, c24N("nbr"); i < n; i++ {
		r.Branches = append(r.Branches, RepositoryBranch{Name: c24S("bn"), Version: c24S("bv")})
	}
	if n := c24N("nraw"); n > 0 {
		r.RawConfig = map[string]string{"k1": c24S("rv1")}
		if n > 1 {
			r.RawConfig["k2"] = c24S("rv2")
		}
	}
	if n := c24N("nmeta"); n > 0 {
		r.Metadata = map[string]string{"m1": c24S("mv1")}
	}
	if n := c24N("nft"); n > 0 {
		r.FileTombstones = map[string]struct{}{"p1": {}}
		if n > 1 {
			r.FileTombstones["p2"] = struct{}{}
		}
	}
	if depth > 0 {
		if n := c24N("nsub"); n > 0 {
			a := c24Repo(0)
			r.SubRepoMap = map[string]*Repository{"sub/a": &a}
			if n > 1 {
				b := c24Repo(0)
				r.SubRepoMap["sub/b"] = &b
			}
		}
	}
	return r
}

func c24EqRepo(a, b *Repository) bool {
	ok := verifrt.And(verifrt.And(a.TenantID == b.TenantID, a.ID == b.ID), verifrt.And(a.Name == b.Name, a.URL == b.URL))
	ok = verifrt.And(ok, verifrt.And(verifrt.And(a.Source == b.Source, a.CommitURLTemplate == b.CommitURLTemplate), verifrt.And(a.FileURLTemplate == b.FileURLTemplate, a.LineFragmentTemplate == b.LineFragmentTemplate)))
	ok = verifrt.And(ok, verifrt.And(verifrt.And(a.Rank == b.Rank, a.IndexOptions == b.IndexOptions), verifrt.And(a.HasSymbols == b.HasSymbols, a.Tombstone == b.Tombstone)))
	if a.priority != b.priority || len(a.Branches) != len(b.Branches) || len(a.RawConfig) != len(b.RawConfig) || len(a.Metadata) != len(b.Metadata) ||
		len(a.FileTombstones) != len(b.FileTombstones) || len(a.SubRepoMap) != len(b.SubRepoMap) {
		return false
	}
	for i := range a.Branches {
		ok = verifrt.And(ok, a.Branches[i] == b.Branches[i])
	}
	for k, v := range a.RawConfig {
		w, has := b.RawConfig[k]
		ok = verifrt.And(ok, verifrt.And(has, v == w))
	}
	for k, v := range a.Metadata {
		w, has := b.Metadata[k]
		ok = verifrt.And(ok, verifrt.And(has, v == w))
	}
	for k := range a.FileTombstones {
		_, has := b.FileTombstones[k]
		ok = verifrt.And(ok, has)
	}
	for k, v := range a.SubRepoMap {
		w, has := b.SubRepoMap[k]
		if !has || w == nil {
			return false
		}
		ok = verifrt.And(ok, c24EqRepo(v, w))
	}
	return ok
}

func H_C24_repositoryRoundtrip() {
	c24Shape()
	r := c24Repo(1)
	back := RepositoryFromProto(r.ToProto())
	verifrt.Assert(c24EqRepo(&r, &back), "Repository (branches, sub-repositories, config, path tombstones) survives the wire round trip")
	verifrt.Observe("ok", true)
	verifrt.Reach("returned")
}

func H_C24_listRoundtrip() {
	c24Shape()
	var rl RepoList
	rl.Crashes = verifrt.Int("crashes")
	verifrt.FillInts(&rl.Stats, "liststats", 0, 1<<62, "")
	n := c24N("nrepos")
	for i := 0; i < n; i++ {
		e := &RepoListEntry{Repository: c24Repo(0)}
		verifrt.FillInts(&e.Stats, "stats", 0, 1<<62, "")
		e.IndexMetadata = IndexMetadata{IndexFormatVersion: verifrt.Int("ifv"), IndexFeatureVersion: verifrt.Int("ifeat"), IndexMinReaderVersion: verifrt.Int("imin"),
			PlainASCII: verifrt.Bool("ascii"), ZoektVersion: c24S("zv"), ID: c24S("mid")}
		if c24N("nlang") > 0 {
			e.IndexMetadata.LanguageMap = map[string]uint16{"Go": verifrt.U16("golang")}
		}
		rl.Repos = append(rl.Repos, e)
	}
	if m := c24N("nmap"); m > 0 {
		rl.ReposMap = ReposMap{}
		for i := 0; i < m; i++ {
			me := MinimalRepoListEntry{HasSymbols: verifrt.Bool("mhs"), IndexTimeUnix: verifrt.I64("itu")}
			for j, k := 0, c24N("nmbr"); j < k; j++ {
				me.Branches = append(me.Branches, RepositoryBranch{Name: c24S("mbn"), Version: c24S("mbv")})
			}
			rl.ReposMap[uint32(10+i)] = me
		}
	}
	back := RepoListFromProto(rl.ToProto())
	verifrt.Assert(back != nil && back.Crashes == rl.Crashes, "crash count survives")
	verifrt.Assert(verifrt.EqInts(&rl.Stats, &back.Stats, ""), "list statistics survive")
	verifrt.Assert(len(back.Repos) == len(rl.Repos) && len(back.ReposMap) == len(rl.ReposMap), "entry counts survive")
	for i := range rl.Repos {
		a, b := rl.Repos[i], back.Repos[i]
		verifrt.Assert(b != nil && c24EqRepo(&a.Repository, &b.Repository), "listed repository survives")
		verifrt.Assert(verifrt.EqInts(&a.Stats, &b.Stats, ""), "per-repository statistics survive")
		x, y := a.IndexMetadata, b.IndexMetadata
		verifrt.Assert(verifrt.And(verifrt.And(x.IndexFormatVersion == y.IndexFormatVersion, x.IndexFeatureVersion == y.IndexFeatureVersion), verifrt.And(x.IndexMinReaderVersion == y.IndexMinReaderVersion, x.PlainASCII == y.PlainASCII)), "index metadata versions survive")
		verifrt.Assert(x.ZoektVersion == y.ZoektVersion && x.ID == y.ID && len(x.LanguageMap) == len(y.LanguageMap), "index metadata identity survives")
		for k, v := range x.LanguageMap {
			verifrt.Assert(y.LanguageMap[k] == v, "language map survives")
		}
	}
	for id, a := range rl.ReposMap {
		b, has := back.ReposMap[id]
		verifrt.Assert(has, "minimal entry keyed by the same id")
		verifrt.Assert(verifrt.And(a.HasSymbols == b.HasSymbols, a.IndexTimeUnix == b.IndexTimeUnix), "minimal entry survives")
		verifrt.Assert(len(a.Branches) == len(b.Branches), "minimal entry branch count survives")
		for j := range a.Branches {
			verifrt.Assert(a.Branches[j] == b.Branches[j], "minimal entry branches survive")
		}
	}
	verifrt.Observe("ok", true)
	verifrt.Reach("returned")
}
