//go:build verif

package index

import (
	"github.com/sourcegraph/zoekt"
	"github.com/sourcegraph/zoekt/query"
	verifrt "github.com/sourcegraph/zoekt/zz_verifrt"
)

// refNextFileIndex: smallest j >= f with ends[j] > offset, else len(ends).
func refNextFileIndex(offset, f uint32, ends []uint32) uint32 {
	j := f
	for j < uint32(len(ends)) {
		if ends[j] > offset {
			return j
		}
		j++
	}
	return uint32(len(ends))
}

func H_C01_nextFileIndex() {
	n := verifrt.IntRange("n", 0, 6)
	n = verifrt.Concretize(n)
	ends := make([]uint32, n)
	for i := range ends {
		ends[i] = verifrt.U32("ends")
		if i > 0 {
			verifrt.Assume(ends[i-1] < ends[i])
		}
	}
	off, f := verifrt.U32("off"), verifrt.U32("f")
	verifrt.Assume(f <= uint32(n))
	got := nextFileIndex(off, f, ends)
	verifrt.Observe("got", got)
	want := refNextFileIndex(off, f, ends)
	verifrt.Assert(got == want, "nextFileIndex = smallest j>=f with ends[j]>offset")
	verifrt.Reach("returned")
}

func H_C01_nextFileIndex_twin() {
	H_C01_nextFileIndex()
	verifrt.Assert(false, "twin")
}

// ---------------------------------------------------------------- hit iterators

const maxU32 = uint32(0xFFFFFFFF)

// symSorted returns a strictly increasing list of n in [0,maxN] symbolic values < MaxUint32.
func symSorted(name string, maxN int) []uint32 {
	n := verifrt.Concretize(verifrt.IntRange(name+"_n", 0, maxN))
	xs := make([]uint32, n)
	for i := range xs {
		xs[i] = verifrt.U32(name)
		verifrt.Assume(xs[i] < maxU32)
		if i > 0 {
			verifrt.Assume(xs[i-1] < xs[i])
		}
	}
	return xs
}

// refFirstAfter: smallest m in ms (sorted) with marks[m] set and m > after (after<0: no bound);
// MaxUint32 if none or if exhausted. Branch-free over symbolic data.
func refFirstAfter(ms []uint32, ok []bool, after int64, exhausted bool) uint32 {
	res := maxU32
	for i := len(ms) - 1; i >= 0; i-- {
		c := verifrt.And(ok[i], int64(ms[i]) > after)
		res = verifrt.IteU32(c, ms[i], res)
	}
	return verifrt.IteU32(exhausted, maxU32, res)
}

func maxI64(a, b int64) int64 {
	return int64(verifrt.IteInt(a > b, int(a), int(b)))
}

// distanceHitIterator over two in-memory posting lists.
func H_C01_distIter() {
	a := symSorted("a", verifrt.Param("n", 2, 3))
	b := symSorted("b", verifrt.Param("n", 2, 3))
	d := verifrt.U32("d")
	verifrt.Assume(d >= 1)
	// Precondition (documented in DESIGN.md C01): postings are rune positions inside one shard and
	// p+d is the position of the pattern's last trigram, so p+d does not wrap around uint32.
	for _, p := range a {
		verifrt.Assume(uint64(p)+uint64(d) < uint64(maxU32))
	}
	// reference: positions p in a with p+d in b (no wrap-around)
	ok := make([]bool, len(a))
	for i := range a {
		hit := false
		for j := range b {
			hit = verifrt.Or(hit, a[i]+d == b[j]) // no wrap-around by the precondition above
		}
		ok[i] = hit
	}
	it := &distanceHitIterator{
		i1:       &inMemoryIterator{postings: append([]uint32(nil), a...)},
		i2:       &inMemoryIterator{postings: append([]uint32(nil), b...)},
		distance: d,
	}
	after := int64(-1)
	exhausted := false
	got := it.first()
	verifrt.Observe("first0", got)
	verifrt.Assert(got == refFirstAfter(a, ok, after, exhausted), "distIter.first = first position with both trigrams at the distance")
	steps := verifrt.Concretize(verifrt.IntRange("steps", 0, 2))
	for s := 0; s < steps; s++ {
		lim := verifrt.U32("limit")
		it.next(lim)
		after = maxI64(after, int64(lim))
		exhausted = verifrt.Or(exhausted, lim == maxU32)
		got = it.first()
		verifrt.Observe("first", got)
		verifrt.Assert(got == refFirstAfter(a, ok, after, exhausted), "distIter.next(limit) then first = first match past limit")
	}
	verifrt.Reach("returned")
}

func encodeDeltas(xs []uint32) []byte {
	var out []byte
	var enc [10]byte
	last := uint32(0)
	for _, x := range xs {
		m := putUvarintRef(enc[:], uint64(x-last))
		out = append(out, enc[:m]...)
		last = x
	}
	return out
}

// putUvarintRef: the varint writer the index writer uses (encoding/binary.PutUvarint).
func putUvarintRef(buf []byte, x uint64) int {
	i := 0
	for x >= 0x80 {
		buf[i] = byte(x) | 0x80
		x >>= 7
		i++
	}
	buf[i] = byte(x)
	return i + 1
}

// compressedPostingIterator over a real delta-varint blob yields the same stream as the list.
func H_C01_compressedIter() {
	xs := symSorted("p", verifrt.Param("n", 2, 3))
	verifrt.Assume(len(xs) > 0)
	blob := encodeDeltas(xs)
	it := newCompressedPostingIterator(blob, 0)
	ok := make([]bool, len(xs))
	for i := range ok {
		ok[i] = true
	}
	after := int64(-1)
	exhausted := false
	got := it.first()
	verifrt.Observe("first0", got)
	verifrt.Assert(got == refFirstAfter(xs, ok, after, exhausted), "compressed.first = first posting")
	steps := verifrt.Concretize(verifrt.IntRange("steps", 0, 2))
	for s := 0; s < steps; s++ {
		lim := verifrt.U32("limit")
		it.next(lim)
		after = maxI64(after, int64(lim))
		exhausted = verifrt.Or(exhausted, lim == maxU32)
		got = it.first()
		verifrt.Observe("first", got)
		verifrt.Assert(got == refFirstAfter(xs, ok, after, exhausted), "compressed.next(limit) then first = first posting past limit")
	}
	verifrt.Reach("returned")
}

// mergingIterator = union of its children.
func H_C01_mergeIter() {
	a := symSorted("a", 2)
	b := symSorted("b", 2)
	c := symSorted("c", 1)
	it := &mergingIterator{iters: []hitIterator{
		&inMemoryIterator{postings: append([]uint32(nil), a...)},
		&inMemoryIterator{postings: append([]uint32(nil), b...)},
		&inMemoryIterator{postings: append([]uint32(nil), c...)},
	}}
	all := append(append(append([]uint32(nil), a...), b...), c...)
	refMin := func(after int64, exhausted bool) uint32 {
		res := maxU32
		for _, v := range all {
			c := verifrt.And(int64(v) > after, v < res)
			res = verifrt.IteU32(c, v, res)
		}
		return verifrt.IteU32(exhausted, maxU32, res)
	}
	after := int64(-1)
	exhausted := false
	verifrt.Assert(it.first() == refMin(after, exhausted), "merge.first = min over children")
	steps := verifrt.Concretize(verifrt.IntRange("steps", 0, 2))
	for s := 0; s < steps; s++ {
		lim := verifrt.U32("limit")
		it.next(lim)
		after = maxI64(after, int64(lim))
		exhausted = verifrt.Or(exhausted, lim == maxU32)
		got := it.first()
		verifrt.Observe("first", got)
		verifrt.Assert(got == refMin(after, exhausted), "merge.next(limit) then first = min past limit")
	}
	verifrt.Reach("returned")
}

// ngramDocIterator: candidates of a document are exactly the postings that fit inside it.
func H_C01_docIter() {
	nf := verifrt.Concretize(verifrt.IntRange("files", 1, 3))
	ends := make([]uint32, nf)
	for i := range ends {
		ends[i] = verifrt.U32("end")
		verifrt.Assume(ends[i] < 1<<30)
		if i > 0 {
			verifrt.Assume(ends[i-1] <= ends[i]) // empty documents are legal
		}
	}
	ps := symSorted("p", verifrt.Param("n", 3, 4))
	for _, p := range ps {
		verifrt.Assume(p < ends[nf-1]) // postings lie inside the corpus
	}
	lp, rp := uint32(verifrt.U8("leftPad")), uint32(verifrt.U8("rightPad"))
	it := &ngramDocIterator{leftPad: lp, rightPad: rp, ends: ends,
		iter: &inMemoryIterator{postings: append([]uint32(nil), ps...)}}

	// the search loop: nextDoc / prepare / candidates with increasing documents
	seen := make([]bool, len(ps)) // posting reported as a candidate
	lastDoc := int64(-1)
	for round := 0; round < nf; round++ {
		nd := it.nextDoc()
		verifrt.Observe("nextDoc", nd)
		if nd == maxU32 {
			break
		}
		verifrt.Assert(int64(nd) >= lastDoc, "nextDoc is monotone")
		verifrt.Assert(nd < uint32(nf), "nextDoc is a document")
		// documents skipped by nextDoc must have no posting that starts inside them
		doc := verifrt.Concretize(int(nd))
		var start uint32
		if doc > 0 {
			start = ends[doc-1]
		}
		end := ends[doc]
		it.prepare(uint32(doc))
		cands := it.candidates()
		// expected: postings p with start+lp <= p, p+rp <= end, p < end (and p >= start)
		want := 0
		for i, p := range ps {
			in := verifrt.And(verifrt.And(p >= start, p < end), verifrt.And(uint64(p) >= uint64(start)+uint64(lp), uint64(p)+uint64(rp) <= uint64(end)))
			want += verifrt.B2I(in)
			_ = i
		}
		verifrt.Observe("ncand", len(cands))
		verifrt.Assert(len(cands) == want, "candidates(doc) = postings that fit in the document with padding")
		for _, c := range cands {
			verifrt.Assert(c.file == uint32(doc), "candidate carries its document")
			// its rune offset corresponds to some fitting posting
			found := false
			for _, p := range ps {
				in := verifrt.And(verifrt.And(p >= start, p < end), verifrt.And(uint64(p) >= uint64(start)+uint64(lp), uint64(p)+uint64(rp) <= uint64(end)))
				found = verifrt.Or(found, verifrt.And(in, c.runeOffset == p-start-lp))
			}
			verifrt.Assert(found, "candidate offset = posting - fileStart - leftPad for a fitting posting")
		}
		_ = seen
		lastDoc = int64(doc) + 1
		if doc+1 >= nf {
			break
		}
		// advance like the search loop does (nextDoc = doc+1)
		it.prepare(uint32(doc + 1))
	}
	verifrt.Reach("returned")
}

// nextDoc never skips a document that holds a posting: for any doc with a posting inside
// [start,end), starting from the beginning, nextDoc() <= doc.
func H_C01_docIterNoSkip() {
	nf := verifrt.Concretize(verifrt.IntRange("files", 1, 4))
	ends := make([]uint32, nf)
	for i := range ends {
		ends[i] = verifrt.U32("end")
		verifrt.Assume(ends[i] < 1<<30)
		if i > 0 {
			verifrt.Assume(ends[i-1] <= ends[i])
		}
	}
	ps := symSorted("p", 3)
	verifrt.Assume(len(ps) > 0)
	for _, p := range ps {
		verifrt.Assume(p < ends[nf-1])
	}
	it := &ngramDocIterator{ends: ends, iter: &inMemoryIterator{postings: append([]uint32(nil), ps...)}}
	nd := it.nextDoc()
	verifrt.Observe("nd", nd)
	// reference: document containing the first posting
	want := refNextFileIndex(ps[0], 0, ends)
	verifrt.Assert(nd == want, "nextDoc = document containing the first remaining posting")
	verifrt.Reach("returned")
}

// andLineMatchTree: "foo.*bar"-style conjunctions must be found iff some line holds a candidate of
// every literal. Candidates (start offsets of literal occurrences, per child sorted and distinct),
// newline positions and file size are symbolic; candidates never start on a newline byte (a
// single-line literal cannot). The children are marked as already matched (known) so that the
// same-line logic itself is what runs.
func H_C01_andLine() {
	size := verifrt.U32("size")
	verifrt.Assume(size >= 1 && size <= 16)
	nnl := verifrt.Concretize(verifrt.IntRange("newlines", 0, verifrt.Param("nl", 2, 3)))
	nls := make([]uint32, nnl)
	for i := range nls {
		nls[i] = verifrt.U32("nl")
		verifrt.Assume(nls[i] < size)
		if i > 0 {
			verifrt.Assume(nls[i-1] < nls[i])
		}
	}
	nch := verifrt.Concretize(verifrt.IntRange("children", 2, verifrt.Param("children", 2, 3)))
	t := &andLineMatchTree{}
	var offs [][]uint32
	for c := 0; c < nch; c++ {
		k := verifrt.Concretize(verifrt.IntRange("cands", 1, 2))
		sm := &substrMatchTree{query: &query.Substring{Pattern: "lit", Content: true}}
		var os []uint32
		for i := 0; i < k; i++ {
			o := verifrt.U32("off")
			verifrt.Assume(o < size)
			if i > 0 {
				verifrt.Assume(os[i-1] < o)
			}
			for _, nl := range nls {
				verifrt.Assume(nl != o)
			}
			os = append(os, o)
			sm.current = append(sm.current, &candidateMatch{byteOffset: o, runeOffset: o, byteMatchSz: 1})
		}
		offs = append(offs, os)
		t.children = append(t.children, sm)
	}
	cp := &contentProvider{id: &indexData{metaData: zoekt.IndexMetadata{PlainASCII: true}}, stats: &zoekt.Stats{}, _nl: nls, fileSize: size}
	if nnl == 0 {
		cp._nl = []uint32{}
	}
	known := map[matchTree]bool{&t.andMatchTree: true}
	got := t.matches(cp, costMax, known)
	// reference: line of an offset = number of newline bytes before it
	lineOf := func(o uint32) int {
		n := 0
		for _, nl := range nls {
			n += verifrt.B2I(nl < o)
		}
		return n
	}
	want := false
	for line := 0; line <= nnl; line++ {
		all := true
		for c := range offs {
			has := false
			for _, o := range offs[c] {
				has = verifrt.Or(has, lineOf(o) == line)
			}
			all = verifrt.And(all, has)
		}
		want = verifrt.Or(want, all)
	}
	verifrt.Observe("got", int(got))
	verifrt.Assert((got == matchesFound) == want, "a same-line conjunction matches iff some line holds a candidate of every literal")
	verifrt.Assert(got == matchesFound || got == matchesNone, "the same-line check decides")
	verifrt.Reach("returned")
}
