//go:build verif

package index

import (
	verifrt "github.com/sourcegraph/zoekt/zz_verifrt"
)

// refNextFileIndex: smallest j >= f with ends[j] > offset, else len(ends).
func refNextFileIndex(offset, f uint32, ends []uint32) uint32 {
	j := f
	for j < uint32(len(ends)) {
		if ends[j] > offset {
			return j
		}
		j++
	}
	return uint32(len(ends))
}

func H_C01_nextFileIndex() {
	n := verifrt.IntRange("n", 0, 6)
	n = verifrt.Concretize(n)
	ends := make([]uint32, n)
	for i := range ends {
		ends[i] = verifrt.U32("ends")
		if i > 0 {
			verifrt.Assume(ends[i-1] < ends[i])
		}
	}
	off, f := verifrt.U32("off"), verifrt.U32("f")
	verifrt.Assume(f <= uint32(n))
	got := nextFileIndex(off, f, ends)
	verifrt.Observe("got", got)
	want := refNextFileIndex(off, f, ends)
	verifrt.Assert(got == want, "nextFileIndex = smallest j>=f with ends[j]>offset")
	verifrt.Reach("returned")
}

func H_C01_nextFileIndex_twin() {
	H_C01_nextFileIndex()
	verifrt.Assert(false, "twin")
}
