//go:build verif

package index

import (
	"context"

	"github.com/sourcegraph/zoekt"
	"github.com/sourcegraph/zoekt/query"
	verifrt "github.com/sourcegraph/zoekt/zz_verifrt"
)

// Style P: a real shard over a fixed corpus (built, written, loaded by zoekt's own code inside the
// executor); the substring query is symbolic (pattern bytes, case flag, file-name/content scope).
// Oracle: a brute-force scan of the corpus.

var verifC01Corpus = []verifDoc{
	{name: "a.go", content: "func needle() {}\nbar foo\n"},
	{name: "b.txt", content: "Needle in haystack\nfoobar\nNEEDLE\n"},
	{name: "c.md", content: "héllo wörld needle\nbaz\n"},
	{name: "needle.go", content: "x\n"},
	{name: "Foo/Bar.go", content: "oof rab\n\nfoo\n"},
}

func verifLowerASCII(c byte) byte {
	return verifrt.IteU8(verifrt.And(c >= 'A', c <= 'Z'), c+32, c)
}

// verifContains: does text contain pat (bytes symbolic), exactly or ASCII-case-insensitively.
func verifContains(text string, pat []byte, caseSensitive bool) bool {
	found := false
	for i := 0; i+len(pat) <= len(text); i++ {
		all := true
		for j := range pat {
			if caseSensitive {
				all = verifrt.And(all, text[i+j] == pat[j])
			} else {
				all = verifrt.And(all, verifLowerASCII(text[i+j]) == verifLowerASCII(pat[j]))
			}
		}
		found = verifrt.Or(found, all)
	}
	return found
}

func H_C01_substringPipeline() {
	verifrt.ClockConcrete()
	d := verifSimpleShard(verifRepo(1, "r1", "main"), verifC01Corpus)
	n := verifrt.Concretize(verifrt.IntRange("patlen", 3, verifrt.Param("patlen", 3, 4)))
	pat := verifrt.Bytes("pat", n)
	for _, c := range pat {
		// letters occurring in the corpus in both cases, plus one that does not occur
		ok := verifrt.Or(c == 'n', verifrt.Or(c == 'e', verifrt.Or(c == 'd', verifrt.Or(c == 'l', verifrt.Or(c == 'N', verifrt.Or(c == 'E', c == 'q'))))))
		ok = verifrt.Or(ok, verifrt.Or(c == 'f', verifrt.Or(c == 'o', verifrt.Or(c == 'b', verifrt.Or(c == 'a', verifrt.Or(c == 'r', verifrt.Or(c == 'F', c == ' ')))))))
		verifrt.Assume(ok)
	}
	caseSensitive := verifrt.Bool("case")
	scope := verifrt.Concretize(verifrt.IntRange("scope", 0, 2)) // 0 = content or name, 1 = content, 2 = file name
	q := &query.Substring{Pattern: string(pat), CaseSensitive: caseSensitive, Content: scope == 1, FileName: scope == 2}
	res, err := d.Search(context.Background(), q, &zoekt.SearchOptions{})
	verifrt.Assert(err == nil, "search succeeds")
	got := map[string]bool{}
	for _, f := range res.Files {
		got[f.FileName] = true
	}
	verifrt.Observe("nfiles", len(res.Files))
	for _, doc := range verifC01Corpus {
		inContent := verifContains(doc.content, pat, caseSensitive)
		inName := verifContains(doc.name, pat, caseSensitive)
		want := verifrt.Or(inContent, inName)
		if scope == 1 {
			want = inContent
		} else if scope == 2 {
			want = inName
		}
		verifrt.Assert(got[doc.name] == want, "a document is returned iff the pattern occurs in it (brute-force scan)")
	}
	verifrt.Reach("returned")
}

// H_C01_regexpPipeline: concrete regexps exercising the trigram pre-filter shapes (same-line
// conjunction, alternation, short literals forcing brute force) against symbolic document content:
// one document whose content bytes are symbolic over a small alphabet.
