//go:build verif

package index

import (
	"context"
	"sort"
	"strings"

	"github.com/sourcegraph/zoekt"
	"github.com/sourcegraph/zoekt/query"
	verifrt "github.com/sourcegraph/zoekt/zz_verifrt"
)

// One corpus is indexed twice by the real Builder into two directories of the environment model
// under two build configurations (symbolic choice): shard size limit forcing one shard or one
// shard per document, insertion order (as given, reversed, rotated), parallelism 1 or 2 (the
// builder's goroutines run on the thread model), with the postings builders reused across shards
// (sync.Pool model: Get returns what was Put). A symbolic substring query is then run over all
// shards of each directory: the same files, with the same match ranges and branches.

var verifC10Corpus = []verifDoc{
	{name: "a.go", content: "func needle() {}\nfoo bar\n", branches: []string{"main"}},
	{name: "b.txt", content: "Needle foobar\nNEEDLE\n", branches: []string{"main", "dev"}},
	{name: "c.md", content: "héllo needle\n", branches: []string{"dev"}},
	{name: "needle.go", content: "x y z\n", branches: []string{"main"}},
	{name: "e.txt", content: "foo needle foo needle héllo\n", branches: []string{"main", "dev"}},
	{name: "f.md", content: "ohé héllo again, größe\n", branches: []string{"main"}},
}

func verifC10Build(dir string, shardMax, order, parallelism int) error {
	return verifC10BuildN(dir, shardMax, order, parallelism, len(verifC10Corpus))
}

func verifC10BuildN(dir string, shardMax, order, parallelism, n int) error {
	opts := Options{
		IndexDir:              dir,
		RepositoryDescription: zoekt.Repository{ID: 1, Name: "r", Branches: []zoekt.RepositoryBranch{{Name: "main", Version: "v1"}, {Name: "dev", Version: "v2"}}},
		ShardMax:              shardMax,
		Parallelism:           parallelism,
		DisableCTags:          true,
		SizeMax:               1 << 20,
		TrigramMax:            20000,
	}
	b, err := NewBuilder(opts)
	if err != nil {
		return err
	}
	for i := 0; i < n; i++ {
		k := i
		switch order {
		case 1:
			k = n - 1 - i
		case 2:
			k = (i + 2) % n
		}
		d := verifC10Corpus[k]
		if err := b.Add(Document{Name: d.name, Content: []byte(d.content), Branches: d.branches, Language: "Go"}); err != nil {
			return err
		}
	}
	return b.Finish()
}

// verifC10Search: file -> "branches | ranges" over every shard of dir.
func verifC10Search(dir string, q query.Q) []string {
	paths, _ := verifrt.Glob(dir + "/*.zoekt")
	var out []string
	for _, p := range paths {
		f, err := verifrt.OsOpen(p)
		if err != nil {
			panic(err)
		}
		inf, _ := verifNewIndexFile(f)
		d := verifLoad(inf.(*verifMemFile))
		res, err := d.Search(context.Background(), q, &zoekt.SearchOptions{ChunkMatches: true})
		if err != nil {
			panic(err)
		}
		for _, fm := range res.Files {
			var rs []string
			for _, cm := range fm.ChunkMatches {
				for _, r := range cm.Ranges {
					rs = append(rs, string(rune('A'+int(r.Start.ByteOffset)))+string(rune('A'+int(r.End.ByteOffset))))
				}
			}
			sort.Strings(rs)
			out = append(out, fm.FileName+" ["+strings.Join(fm.Branches, ",")+"] "+strings.Join(rs, " "))
		}
	}
	sort.Strings(out)
	return out
}

func verifC10Queries() []query.Q {
	return []query.Q{
		&query.Substring{Pattern: "needle"}, &query.Substring{Pattern: "Needle", CaseSensitive: true}, &query.Substring{Pattern: "foo", Content: true},
		&query.Substring{Pattern: "needle", FileName: true}, &query.Branch{Pattern: "dev"}, query.NewAnd(&query.Substring{Pattern: "foo"}, &query.Not{Child: &query.Substring{Pattern: "bar"}}),
		&query.Substring{Pattern: "héllo"}, // a non-ASCII trigram that occurs in two documents (two shards when split)
	}
}

func verifC10Compare(q query.Q) {
	want := verifC10Search("/ref", q)
	got := verifC10Search("/alt", q)
	verifrt.Observe("n", len(got))
	verifrt.Assert(len(got) == len(want), "the same files are found however the index was built")
	if len(got) == len(want) {
		for i := range got {
			verifrt.Assert(got[i] == want[i], "the same matches and branches are reported however the index was built")
		}
	}
}

// H_C10_buildConfigs: sequential builds: shard limit x insertion order x query (case splits; with two
// builds and up to five shards per path a symbolic pattern would multiply to tens of thousands of
// multi-million-step paths, so the query is one of six atoms here).
func H_C10_buildConfigs() {
	verifrt.ClockConcrete()
	verifrt.FSReset()
	verifrt.Assume(verifC10Build("/ref", 1<<20, 0, 1) == nil)
	shardMax := []int{1 << 20, 10, 60}[verifrt.Concretize(verifrt.IntRange("shardMax", 0, 2))]
	order := verifrt.Concretize(verifrt.IntRange("order", 0, 2))
	verifrt.Assert(verifC10Build("/alt", shardMax, order, 1) == nil, "every build configuration indexes the corpus")
	qs := verifC10Queries()
	verifC10Compare(qs[verifrt.Concretize(verifrt.IntRange("query", 0, len(qs)-1))])
	verifrt.Reach("returned")
}

// H_C10_parallel: parallelism 2 (the builder's goroutines, throttle channel and WaitGroup run on the
// thread model; every interleaving with at most one preemption), one document per shard, the first 2 (quick) / 3 (thorough) documents of the corpus.
func H_C10_parallel() {
	verifrt.ClockConcrete()
	verifrt.EnableThreads(400)
	verifrt.PreemptionBound(1)
	verifrt.FSReset()
	ndocs := verifrt.Param("parallelDocs", 2, 3)
	verifrt.Assume(verifC10BuildN("/ref", 1<<20, 0, 1, ndocs) == nil)
	verifrt.Assert(verifC10BuildN("/alt", 10, 0, 2, ndocs) == nil, "a parallel build indexes the corpus")
	verifC10Compare(&query.Substring{Pattern: "needle"})
	verifC10Compare(&query.Branch{Pattern: "dev"})
	verifrt.Reach("returned")
}

func H_C10_twin() {
	verifrt.ClockConcrete()
	verifrt.FSReset()
	verifrt.Assume(verifC10Build("/ref", 1<<20, 0, 1) == nil)
	verifrt.Assert(len(verifC10Search("/ref", &query.Const{Value: true})) == 77, "twin")
}
