//go:build verif

package query

import (
	verifrt "github.com/sourcegraph/zoekt/zz_verifrt"
)

// The query string is a sequence of tokens from the documented vocabulary (which token stands where
// is a symbolic choice). It is parsed by the real Parse and, independently, by an interpreter of the
// EBNF in doc/query_syntax.md written below. Both trees are evaluated on "the document" whose atom
// truths are symbolic booleans keyed by (kind of atom, text, case-sensitivity): the meanings must be
// equal for every truth assignment, and the result type (type: directive of the outermost scope)
// must be equal.

type c06Tok struct {
	text string
	kind int    // 0 atom, 1 '(', 2 ')', 3 '-', 4 'or', 5 case directive, 6 type directive
	atom string // for atoms: kind of atom: "any" (file name or content), "file", "content", "repo", "branch"
	arg  string
}

var c06Structural = []c06Tok{
	{text: "a", kind: 0, atom: "any", arg: "a"},
	{text: "B", kind: 0, atom: "any", arg: "B"},
	{text: "(", kind: 1}, {text: ")", kind: 2}, {text: "-", kind: 3}, {text: "or", kind: 4},
	{text: "case:yes", kind: 5, arg: "yes"},
	{text: "type:repo", kind: 6, arg: "repo"},
	{text: "f:a", kind: 0, atom: "file", arg: "a"},
}

// case scoping: a case: directive belongs to its enclosing group
var c06CaseScope = []c06Tok{
	{text: "a", kind: 0, atom: "any", arg: "a"},
	{text: "B", kind: 0, atom: "any", arg: "B"},
	{text: "(", kind: 1}, {text: ")", kind: 2},
	{text: "case:yes", kind: 5, arg: "yes"}, {text: "case:no", kind: 5, arg: "no"}, {text: "case:auto", kind: 5, arg: "auto"},
}

var c06Aliases = []c06Tok{
	{text: "file:a", kind: 0, atom: "file", arg: "a"}, {text: "f:a", kind: 0, atom: "file", arg: "a"},
	{text: "content:a", kind: 0, atom: "content", arg: "a"}, {text: "c:a", kind: 0, atom: "content", arg: "a"},
	{text: "repo:a", kind: 0, atom: "repo", arg: "a"}, {text: "r:a", kind: 0, atom: "repo", arg: "a"},
	{text: "branch:a", kind: 0, atom: "branch", arg: "a"}, {text: "b:a", kind: 0, atom: "branch", arg: "a"},
	{text: "and", kind: 0, atom: "any", arg: "and"},
	{text: "\"a b\"", kind: 0, atom: "any", arg: "a b"},
	{text: "case:no", kind: 5, arg: "no"}, {text: "case:auto", kind: 5, arg: "auto"},
	{text: "type:file", kind: 6, arg: "file"}, {text: "t:repo", kind: 6, arg: "repo"}, {text: "type:filematch", kind: 6, arg: "filematch"},
	{text: "B", kind: 0, atom: "any", arg: "B"},
	{text: "or", kind: 4},
}

// ---- the reference: recursive descent over the token list, per the EBNF
//   query = conjunction { "or" conjunction } ; conjunction = expression { expression } ;
//   expression = [ "-" ] ( grouping | text | field ) ; grouping = "(" query ")"
// case: and type: are fields that apply to the whole query of their scope (documented for type:;
// case: is used that way in every documented example).

type c06Ref struct {
	kind     int // 0 atom, 1 and, 2 or, 3 not
	atom     string
	arg      string
	caseMode string // for atoms: "yes", "no", "auto" - resolved after parsing the scope
	kids     []*c06Ref
	typ      string // result type set on this scope ("" = none)
}

type c06Parser struct {
	toks []c06Tok
	pos  int
	ok   bool
}

func (p *c06Parser) query() *c06Ref {
	caseMode, typ := "", ""
	var alts []*c06Ref
	for {
		var conj []*c06Ref
		for p.pos < len(p.toks) && p.toks[p.pos].kind != 4 && p.toks[p.pos].kind != 2 {
			t := p.toks[p.pos]
			if t.kind == 5 {
				if caseMode != "" {
					p.ok = false // two case directives in one scope: not described
				}
				caseMode = t.arg
				p.pos++
				continue
			}
			if t.kind == 6 {
				if typ != "" {
					p.ok = false
				}
				typ = t.arg
				p.pos++
				continue
			}
			e := p.expression()
			if e == nil {
				p.ok = false
				return nil
			}
			conj = append(conj, e)
		}
		if len(conj) == 0 {
			p.ok = false // a conjunction needs at least one expression
			return nil
		}
		alts = append(alts, &c06Ref{kind: 1, kids: conj})
		if p.pos < len(p.toks) && p.toks[p.pos].kind == 4 {
			p.pos++
			continue
		}
		break
	}
	r := &c06Ref{kind: 2, kids: alts, typ: typ}
	if caseMode != "" {
		r.setCase(caseMode)
	}
	return r
}

func (r *c06Ref) setCase(m string) {
	if r.kind == 0 {
		if r.caseMode == "" {
			r.caseMode = m
		}
		return
	}
	for _, k := range r.kids {
		k.setCase(m)
	}
}

func (p *c06Parser) expression() *c06Ref {
	if p.pos >= len(p.toks) {
		return nil
	}
	t := p.toks[p.pos]
	switch t.kind {
	case 3:
		p.pos++
		if p.pos < len(p.toks) && (p.toks[p.pos].kind == 5 || p.toks[p.pos].kind == 6 || p.toks[p.pos].kind == 3) {
			return nil // negated directive / double negation: not described
		}
		e := p.expression()
		if e == nil {
			return nil
		}
		return &c06Ref{kind: 3, kids: []*c06Ref{e}}
	case 1:
		p.pos++
		q := p.query()
		if q == nil || p.pos >= len(p.toks) || p.toks[p.pos].kind != 2 {
			return nil
		}
		p.pos++
		return q
	case 0:
		p.pos++
		return &c06Ref{kind: 0, atom: t.atom, arg: t.arg}
	}
	return nil
}

// ---- meaning of both trees on a document with symbolic atom truths

type c06Doc struct {
	truth map[string]bool
}

func (d *c06Doc) holds(kind, text string, caseSensitive bool) bool {
	k := kind + "|" + text
	if caseSensitive {
		k += "|cs"
	}
	v, ok := d.truth[k]
	if !ok {
		v = verifrt.Bool("truth:" + k)
		d.truth[k] = v
	}
	return v
}

func c06HasUpper(s string) bool {
	for i := 0; i < len(s); i++ {
		if s[i] >= 'A' && s[i] <= 'Z' {
			return true
		}
	}
	return false
}

func (d *c06Doc) evalRef(r *c06Ref) bool {
	switch r.kind {
	case 1:
		v := true
		for _, k := range r.kids {
			v = verifrt.And(v, d.evalRef(k))
		}
		return v
	case 2:
		v := false
		for _, k := range r.kids {
			v = verifrt.Or(v, d.evalRef(k))
		}
		return v
	case 3:
		return !d.evalRef(r.kids[0])
	}
	cs := r.caseMode == "yes" || ((r.caseMode == "" || r.caseMode == "auto") && c06HasUpper(r.arg))
	switch r.atom {
	case "any":
		return verifrt.Or(d.holds("file", r.arg, cs), d.holds("content", r.arg, cs))
	case "file", "content":
		return d.holds(r.atom, r.arg, cs)
	case "repo":
		return d.holds("repo", r.arg, false) // repository names: case directive not described for them
	}
	return d.holds("branch", r.arg, false)
}

func (d *c06Doc) evalQ(q Q) bool {
	switch s := q.(type) {
	case *And:
		v := true
		for _, c := range s.Children {
			v = verifrt.And(v, d.evalQ(c))
		}
		return v
	case *Or:
		v := false
		for _, c := range s.Children {
			v = verifrt.Or(v, d.evalQ(c))
		}
		return v
	case *Not:
		return !d.evalQ(s.Child)
	case *Type:
		return d.evalQ(s.Child)
	case *Const:
		return s.Value
	case *Substring:
		if s.FileName && !s.Content {
			return d.holds("file", s.Pattern, s.CaseSensitive)
		}
		if s.Content && !s.FileName {
			return d.holds("content", s.Pattern, s.CaseSensitive)
		}
		return verifrt.Or(d.holds("file", s.Pattern, s.CaseSensitive), d.holds("content", s.Pattern, s.CaseSensitive))
	case *Repo:
		return d.holds("repo", s.Regexp.String(), false)
	case *Branch:
		return d.holds("branch", s.Pattern, false)
	}
	verifrt.Assert(false, "the parser yields only node kinds the documentation describes for this vocabulary")
	return false
}

func c06ResultType(q Q) string {
	if t, ok := q.(*Type); ok {
		switch t.Type {
		case TypeRepo:
			return "repo"
		case TypeFileName:
			return "file"
		}
		return "filematch"
	}
	return ""
}

func c06Norm(t string) string {
	if t == "filename" {
		return "file"
	}
	return t
}

func H_C06_semantics() {
	vocab, maxTokens := c06Structural, verifrt.Param("tokensStructural", 4, 6)
	switch verifrt.Concretize(verifrt.IntRange("regime", 0, 2)) {
	case 1:
		vocab, maxTokens = c06Aliases, verifrt.Param("tokensAliases", 3, 3)
	case 2:
		vocab, maxTokens = c06CaseScope, verifrt.Param("tokensCaseScope", 5, 6)
	}
	n := verifrt.Concretize(verifrt.IntRange("tokens", 1, maxTokens))
	var toks []c06Tok
	s := ""
	for i := 0; i < n; i++ {
		t := vocab[verifrt.Concretize(verifrt.IntRange("token", 0, len(vocab)-1))]
		toks = append(toks, t)
		if i > 0 {
			s += " "
		}
		s += t.text
	}
	p := &c06Parser{toks: toks, ok: true}
	ref := p.query()
	if ref == nil || !p.ok || p.pos != len(toks) {
		return // not a query the documentation describes
	}
	q, err := Parse(s)
	verifrt.Observe("err", err != nil)
	verifrt.Assert(err == nil, "a query built as the documentation describes is accepted")
	if err != nil {
		return
	}
	d := &c06Doc{truth: map[string]bool{}}
	want := d.evalRef(ref)
	got := d.evalQ(q)
	verifrt.Assert(got == want, "the parsed query means what the documentation says (or / implicit and / - / grouping / field aliases / case)")
	// a scope that consists of nothing but one parenthesised group is that group
	scope := ref
	for scope.typ == "" && (scope.kind == 1 || scope.kind == 2) && len(scope.kids) == 1 {
		scope = scope.kids[0]
	}
	wantType := scope.typ
	if wantType == "filematch" {
		wantType = ""
	}
	gotType := c06ResultType(q)
	if gotType == "filematch" {
		gotType = ""
	}
	verifrt.Assert(gotType == c06Norm(wantType), "type: applies to the whole expression of its scope")
	verifrt.Reach("returned")
}

func H_C06_twin() {
	q, err := Parse("a or B")
	verifrt.Assert(err == nil && q == nil, "twin")
}
