//go:build verif

package index

import (
	"bytes"
	"context"

	"github.com/sourcegraph/zoekt"
	"github.com/sourcegraph/zoekt/query"
	verifrt "github.com/sourcegraph/zoekt/zz_verifrt"
)

// H_C09_runeOffsetMap (kernel): the reader compresses the writer's rune-offset samples (the byte
// offset of every 100th rune) into correction points and interpolates. For any sample sequence a
// writer can produce (first sample 0, consecutive samples 100..400 bytes apart: 100 runes of 1..4
// bytes) of 1-3 [1-4] samples and any rune index below the sampled range, lookup returns the
// sample of the enclosing 100-rune block and the remainder.
func H_C09_runeOffsetMap() {
	n := verifrt.Concretize(verifrt.IntRange("samples", 1, verifrt.Param("samples", 3, 4)))
	off := make([]uint32, n)
	for i := 1; i < n; i++ {
		d := verifrt.U32("delta")
		verifrt.Assume(verifrt.And(d >= 100, d <= 400))
		off[i] = off[i-1] + d
	}
	m := makeRuneOffsetMap(off)
	r := verifrt.U32("rune")
	verifrt.Assume(r < uint32(n)*runeOffsetFrequency)
	byteOff, left := m.lookup(r)
	blk := verifrt.Concretize(int(r / runeOffsetFrequency))
	verifrt.Assert(left == r%runeOffsetFrequency, "lookup leaves the runes beyond the last sampled position to walk")
	verifrt.Assert(byteOff == off[blk], "lookup returns the sampled byte offset of the enclosing 100-rune block")
	verifrt.Observe("corrections", len(m))
	verifrt.Reach("returned")
}

// H_C09_runeBoundary (style P): two documents written and read back by the real code; the first is
// 97..103 runes long and 0..3 of its last runes are two-byte runes, so the 100-rune sampling point
// falls before, inside or after the multi-byte stretch and the second document starts at an
// arbitrary phase; a content match in the second document (behind sixteen runes of 2, 3 or 4 bytes) must be reported
// at the byte offset where the text really is, case-sensitively and case-insensitively.
func H_C09_runeBoundary() {
	verifrt.ClockConcrete()
	runes := verifrt.Concretize(verifrt.IntRange("runes", 97, 103))
	wide := verifrt.Concretize(verifrt.IntRange("wide", 0, 3))
	var first []byte
	for i := 0; i < runes; i++ {
		if i >= runes-wide {
			first = append(first, "é"...)
		} else if i%20 == 19 {
			first = append(first, '\n')
		} else {
			first = append(first, byte('a'+i%7))
		}
	}
	// the match in the second document sits directly behind sixteen runes of a symbolic width (2, 3 or 4
	// bytes): more than three bytes per rune since the last sampling point in the widest case
	filler := []string{"é", "€", "😀"}[verifrt.Concretize(verifrt.IntRange("fillerWidth", 0, 2))]
	second := []byte("z")
	for i := 0; i < 16; i++ {
		second = append(second, filler...)
	}
	second = append(second, "Needle here\n"...)
	b, err := NewShardBuilder(verifRepo(9, "rb", "main"))
	verifrt.Assert(err == nil, "builder")
	verifrt.Assert(b.Add(Document{Name: "first.txt", Content: first, Branches: []string{"main"}, Language: "Text", Category: FileCategoryDefault}) == nil, "add first")
	verifrt.Assert(b.Add(Document{Name: "second.txt", Content: second, Branches: []string{"main"}, Language: "Text", Category: FileCategoryDefault}) == nil, "add second")
	d := verifLoad(verifWriteShard(b, "verif-rb.zoekt"))
	cs := verifrt.Bool("caseSensitive")
	pat := "needle"
	if cs {
		pat = "Needle"
	}
	res, serr := d.Search(context.Background(), &query.Substring{Pattern: pat, CaseSensitive: cs, Content: true}, &zoekt.SearchOptions{ChunkMatches: true, Whole: true})
	verifrt.Assert(serr == nil, "search")
	verifrt.Assert(len(res.Files) == 1 && res.Files[0].FileName == "second.txt", "the match is found in the second document only")
	if len(res.Files) == 1 {
		f := res.Files[0]
		verifrt.Assert(string(f.Content) == string(second), "content is read back byte for byte")
		want := bytes.Index(second, []byte("Needle"))
		verifrt.Assert(len(f.ChunkMatches) == 1 && len(f.ChunkMatches[0].Ranges) == 1, "one match")
		if len(f.ChunkMatches) == 1 && len(f.ChunkMatches[0].Ranges) == 1 {
			rg := f.ChunkMatches[0].Ranges[0]
			verifrt.Assert(int(rg.Start.ByteOffset) == want && int(rg.End.ByteOffset) == want+6, "the match is reported at the byte offset of the text")
		}
	}
	// the first document reads back too
	all, _ := d.Search(context.Background(), &query.Const{Value: true}, &zoekt.SearchOptions{Whole: true})
	verifrt.Assert(len(all.Files) == 2 && string(all.Files[0].Content) == string(first), "the first document is read back byte for byte")
	verifrt.Observe("runes", runes)
	verifrt.Reach("returned")
}
