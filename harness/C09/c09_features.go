//go:build verif

package index

import (
	"context"
	"hash/crc64"

	"github.com/sourcegraph/zoekt"
	"github.com/sourcegraph/zoekt/query"
	verifrt "github.com/sourcegraph/zoekt/zz_verifrt"
)

// H_C09_features (style P): one shard with a document in a sub-repository, a document skipped for a
// symbolic reason, and a document with two symbols whose kinds/parents are chosen symbolically, on
// a symbolic subset of three branches; written and read back by the real code. Every attribute
// the property lists comes back: name, content (or the explanation of a skipped document),
// branches, checksum, language, sub-repository, and per-symbol information at the symbol's range.
func H_C09_features() {
	verifrt.ClockConcrete()
	repo := verifRepo(11, "feat", "main", "dev", "rel")
	repo.SubRepoMap = map[string]*zoekt.Repository{"vendor/lib": {Name: "lib", URL: "https://h/lib",
		// a sub-repository carries one version per branch of its parent (as the git indexer sets it)
		Branches: []zoekt.RepositoryBranch{{Name: "main", Version: "s1"}, {Name: "dev", Version: "s2"}, {Name: "rel", Version: "s3"}}}}
	b, err := NewShardBuilder(repo)
	verifrt.Assert(err == nil, "builder")

	var brs []string
	for _, n := range []string{"main", "dev", "rel"} {
		if verifrt.Bool("onBranch") {
			brs = append(brs, n)
		}
	}
	verifrt.Assume(len(brs) > 0)
	reason := SkipReason(verifrt.Concretize(verifrt.IntRange("skipReason", int(SkipReasonTooLarge), int(SkipReasonMissing))))
	kinds := []string{"function", "method", "class"}
	k1 := kinds[verifrt.Concretize(verifrt.IntRange("kind", 0, 2))]
	k2 := kinds[verifrt.Concretize(verifrt.IntRange("kind", 0, 2))]
	parent := []string{"", "Outer"}[verifrt.Concretize(verifrt.IntRange("parent", 0, 1))]

	symContent := []byte("func alpha() {}\nfunc beta() {}\n")
	syms := []DocumentSection{{5, 10}, {21, 25}}
	meta := []*zoekt.Symbol{{Sym: "alpha", Kind: k1, Parent: parent, ParentKind: "class"}, {Sym: "beta", Kind: k2}}
	verifrt.Assert(b.Add(Document{Name: "vendor/lib/x.go", Content: []byte("package lib // sub\n"), Branches: brs, SubRepositoryPath: "vendor/lib", Language: "Go", Category: FileCategoryDefault}) == nil, "add sub-repository document")
	verifrt.Assert(b.Add(Document{Name: "big.bin", Content: []byte("raw bytes that are not kept"), Branches: []string{"main"}, SkipReason: reason, Language: "Text", Category: FileCategoryDefault}) == nil, "add skipped document")
	verifrt.Assert(b.Add(Document{Name: "sym.go", Content: symContent, Branches: brs, Language: "Go", Category: FileCategoryDefault, Symbols: syms, SymbolsMetaData: meta}) == nil, "add document with symbols")
	d := verifLoad(verifWriteShard(b, "verif-feat.zoekt"))

	res, serr := d.Search(context.Background(), &query.Const{Value: true}, &zoekt.SearchOptions{Whole: true})
	verifrt.Assert(serr == nil && len(res.Files) == 3, "every document is read back")
	if len(res.Files) == 3 {
		sub, skipped, sym := res.Files[0], res.Files[1], res.Files[2]
		verifrt.Assert(sub.FileName == "vendor/lib/x.go" && sub.SubRepositoryPath == "vendor/lib" && sub.SubRepositoryName == "lib", "sub-repository membership is read back")
		verifrt.Assert(skipped.SubRepositoryPath == "" && sym.SubRepositoryName == "", "documents outside a sub-repository have none")
		verifrt.Assert(string(skipped.Content) == notIndexedMarker+reason.explanation(), "a skipped document is present with the explanation in place of its content")
		verifrt.Assert(string(sym.Content) == string(symContent), "content is read back")
		verifrt.Assert(len(sym.Branches) == len(brs) && len(sub.Branches) == len(brs), "branch membership is read back (count)")
		for i := range brs {
			if i < len(sym.Branches) {
				verifrt.Assert(sym.Branches[i] == brs[i], "branch membership is read back")
			}
		}
		verifrt.Assert(len(skipped.Branches) == 1 && skipped.Branches[0] == "main", "the skipped document keeps its branch")
		h := crc64.New(crc64.MakeTable(crc64.ISO))
		h.Write(symContent)
		verifrt.Assert(string(sym.Checksum) == string(h.Sum(nil)), "the content checksum is read back")
		verifrt.Assert(sym.Language == "Go", "language is read back")
	}

	// symbol information through a symbol search
	for i, name := range []string{"alpha", "beta"} {
		sr, err := d.Search(context.Background(), &query.Symbol{Expr: &query.Substring{Pattern: name, Content: true, CaseSensitive: true}}, &zoekt.SearchOptions{ChunkMatches: true})
		verifrt.Assert(err == nil && len(sr.Files) == 1 && sr.Files[0].FileName == "sym.go", "a symbol is found by name")
		if err == nil && len(sr.Files) == 1 && len(sr.Files[0].ChunkMatches) == 1 {
			cm := sr.Files[0].ChunkMatches[0]
			verifrt.Assert(len(cm.Ranges) == 1 && cm.Ranges[0].Start.ByteOffset == syms[i].Start && cm.Ranges[0].End.ByteOffset == syms[i].End, "the symbol's range is read back")
			verifrt.Assert(len(cm.SymbolInfo) == 1 && cm.SymbolInfo[0] != nil, "symbol information is attached to the match")
			if len(cm.SymbolInfo) == 1 && cm.SymbolInfo[0] != nil {
				got, w := cm.SymbolInfo[0], meta[i]
				verifrt.Assert(got.Sym == w.Sym && got.Kind == w.Kind && got.Parent == w.Parent && got.ParentKind == w.ParentKind, "symbol name, kind, parent and parent kind are read back")
			}
		} else {
			verifrt.Assert(false, "a symbol match is one chunk")
		}
	}
	verifrt.Observe("branches", len(brs))
	verifrt.Reach("returned")
}

// H_C09_languages (style P, builder state constructed directly): a shard builder that has already
// seen k distinct languages (k = 0, 1, 200, 255, 256, 257, 300, 1000: the language table is filled
// in directly instead of adding k documents) receives two documents in two further languages; both
// are written and read back by the real code and must come back with their own language, also
// beyond the one-byte boundary of the 16-bit language code.
func H_C09_languages() {
	verifrt.ClockConcrete()
	b, err := NewShardBuilder(verifRepo(12, "langs", "main"))
	verifrt.Assert(err == nil, "builder")
	k := []int{0, 1, 200, 255, 256, 257, 300, 1000}[verifrt.Concretize(verifrt.IntRange("languagesSeen", 0, 7))]
	for i := 0; i < k; i++ {
		b.languageMap["L"+string(rune('a'+i%26))+string(rune('a'+(i/26)%26))+string(rune('a'+i/676))] = uint16(i)
	}
	verifrt.Assert(len(b.languageMap) == k, "prefill")
	verifrt.Assert(b.Add(Document{Name: "one.x", Content: []byte("first document\n"), Branches: []string{"main"}, Language: "TargetOne", Category: FileCategoryDefault}) == nil, "add")
	verifrt.Assert(b.Add(Document{Name: "two.y", Content: []byte("second document\n"), Branches: []string{"main"}, Language: "TargetTwo", Category: FileCategoryDefault}) == nil, "add")
	d := verifLoad(verifWriteShard(b, "verif-langs.zoekt"))
	res, serr := d.Search(context.Background(), &query.Const{Value: true}, &zoekt.SearchOptions{Whole: true})
	verifrt.Assert(serr == nil && len(res.Files) == 2, "both documents are read back")
	if len(res.Files) == 2 {
		verifrt.Assert(res.Files[0].Language == "TargetOne" && res.Files[1].Language == "TargetTwo", "every document is read back with its own language")
	}
	lr, lerr := d.Search(context.Background(), &query.Language{Language: "TargetTwo"}, &zoekt.SearchOptions{})
	verifrt.Assert(lerr == nil && len(lr.Files) == 1 && lr.Files[0].FileName == "two.y", "a language filter selects exactly the documents of that language")
	verifrt.Observe("languagesSeen", k)
	verifrt.Reach("returned")
}
