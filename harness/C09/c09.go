//go:build verif

package index

import (
	verifrt "github.com/sourcegraph/zoekt/zz_verifrt"
)

// toSizedDeltas <-> fromSizedDeltas on arbitrary 32-bit values (not assumed sorted: deltas wrap).
func H_C09_deltas32() {
	n := verifrt.Concretize(verifrt.IntRange("n", 0, verifrt.Param("n", 2, 3)))
	xs := make([]uint32, n)
	for i := range xs {
		xs[i] = verifrt.U32("x")
	}
	enc := toSizedDeltas(xs)
	// with and without a reused buffer of symbolic capacity
	var buf []uint32
	if verifrt.Bool("reuse") {
		buf = make([]uint32, 1, verifrt.Concretize(verifrt.IntRange("cap", 1, 4)))
		buf[0] = 0xdeadbeef
	}
	dec := fromSizedDeltas(enc, buf)
	verifrt.Observe("declen", len(dec))
	verifrt.Assert(len(dec) == len(xs), "decoded length equals encoded length")
	for i := range xs {
		verifrt.Assert(dec[i] == xs[i], "decode(encode(x))[i] == x[i]")
	}
	verifrt.Reach("returned")
}

func H_C09_deltas16() {
	n := verifrt.Concretize(verifrt.IntRange("n", 0, verifrt.Param("n", 3, 4)))
	xs := make([]uint16, n)
	for i := range xs {
		xs[i] = verifrt.U16("x")
	}
	enc := toSizedDeltas16(xs)
	dec := fromSizedDeltas16(enc, nil)
	verifrt.Observe("declen", len(dec))
	verifrt.Assert(len(dec) == len(xs), "decoded length equals encoded length")
	for i := range xs {
		verifrt.Assert(dec[i] == xs[i], "decode(encode(x))[i] == x[i] (16 bit)")
	}
	verifrt.Reach("returned")
}

// fromDeltas decodes what the posting writer produces (plain delta varints).
func H_C09_fromDeltas() {
	n := verifrt.Concretize(verifrt.IntRange("n", 0, verifrt.Param("n", 3, 4)))
	xs := make([]uint32, n)
	for i := range xs {
		xs[i] = verifrt.U32("x")
		if i > 0 {
			verifrt.Assume(xs[i-1] < xs[i])
		}
	}
	var blob []byte
	var enc [10]byte
	last := uint32(0)
	for _, x := range xs {
		m := c09PutUvarint(enc[:], uint64(x-last))
		blob = append(blob, enc[:m]...)
		last = x
	}
	dec := fromDeltas(blob, nil)
	verifrt.Assert(len(dec) == len(xs), "posting count survives")
	for i := range xs {
		verifrt.Assert(dec[i] == xs[i], "posting survives")
	}
	verifrt.Reach("returned")
}

func c09PutUvarint(buf []byte, x uint64) int {
	i := 0
	for x >= 0x80 {
		buf[i] = byte(x) | 0x80
		x >>= 7
		i++
	}
	buf[i] = byte(x)
	return i + 1
}

// marshalDocSections <-> unmarshalDocSections.
func H_C09_docSections() {
	n := verifrt.Concretize(verifrt.IntRange("n", 0, verifrt.Param("n", 1, 1)))
	secs := make([]DocumentSection, n)
	for i := range secs {
		secs[i] = DocumentSection{Start: verifrt.U32("start"), End: verifrt.U32("end")}
	}
	enc := marshalDocSections(secs)
	var buf []DocumentSection
	if verifrt.Bool("reuse") {
		buf = make([]DocumentSection, 1, verifrt.Concretize(verifrt.IntRange("cap", 1, 3)))
	}
	dec := unmarshalDocSections(enc, buf)
	verifrt.Assert(len(dec) == len(secs), "section count survives")
	for i := range secs {
		verifrt.Assert(dec[i].Start == secs[i].Start, "section start survives")
		verifrt.Assert(dec[i].End == secs[i].End, "section end survives")
	}
	verifrt.Reach("returned")
}

func H_C09_twin() {
	H_C09_deltas32()
	verifrt.Assert(false, "twin")
}
