//go:build verif

package index

import (
	"context"

	"github.com/sourcegraph/zoekt"
	"github.com/sourcegraph/zoekt/query"
	verifrt "github.com/sourcegraph/zoekt/zz_verifrt"
)

// toSizedDeltas <-> fromSizedDeltas on arbitrary 32-bit values (not assumed sorted: deltas wrap).
func H_C09_deltas32() {
	n := verifrt.Concretize(verifrt.IntRange("n", 0, verifrt.Param("n", 2, 3)))
	xs := make([]uint32, n)
	for i := range xs {
		xs[i] = verifrt.U32("x")
	}
	enc := toSizedDeltas(xs)
	// with and without a reused buffer of symbolic capacity
	var buf []uint32
	if verifrt.Bool("reuse") {
		buf = make([]uint32, 1, verifrt.Concretize(verifrt.IntRange("cap", 1, 4)))
		buf[0] = 0xdeadbeef
	}
	dec := fromSizedDeltas(enc, buf)
	verifrt.Observe("declen", len(dec))
	verifrt.Assert(len(dec) == len(xs), "decoded length equals encoded length")
	for i := range xs {
		verifrt.Assert(dec[i] == xs[i], "decode(encode(x))[i] == x[i]")
	}
	verifrt.Reach("returned")
}

func H_C09_deltas16() {
	n := verifrt.Concretize(verifrt.IntRange("n", 0, verifrt.Param("n", 3, 4)))
	xs := make([]uint16, n)
	for i := range xs {
		xs[i] = verifrt.U16("x")
	}
	enc := toSizedDeltas16(xs)
	dec := fromSizedDeltas16(enc, nil)
	verifrt.Observe("declen", len(dec))
	verifrt.Assert(len(dec) == len(xs), "decoded length equals encoded length")
	for i := range xs {
		verifrt.Assert(dec[i] == xs[i], "decode(encode(x))[i] == x[i] (16 bit)")
	}
	verifrt.Reach("returned")
}

// fromDeltas decodes what the posting writer produces (plain delta varints).
func H_C09_fromDeltas() {
	n := verifrt.Concretize(verifrt.IntRange("n", 0, verifrt.Param("n", 3, 4)))
	xs := make([]uint32, n)
	for i := range xs {
		xs[i] = verifrt.U32("x")
		if i > 0 {
			verifrt.Assume(xs[i-1] < xs[i])
		}
	}
	var blob []byte
	var enc [10]byte
	last := uint32(0)
	for _, x := range xs {
		m := c09PutUvarint(enc[:], uint64(x-last))
		blob = append(blob, enc[:m]...)
		last = x
	}
	dec := fromDeltas(blob, nil)
	verifrt.Assert(len(dec) == len(xs), "posting count survives")
	for i := range xs {
		verifrt.Assert(dec[i] == xs[i], "posting survives")
	}
	verifrt.Reach("returned")
}

func c09PutUvarint(buf []byte, x uint64) int {
	i := 0
	for x >= 0x80 {
		buf[i] = byte(x) | 0x80
		x >>= 7
		i++
	}
	buf[i] = byte(x)
	return i + 1
}

// marshalDocSections <-> unmarshalDocSections.
func H_C09_docSections() {
	n := verifrt.Concretize(verifrt.IntRange("n", 0, verifrt.Param("n", 1, 1)))
	secs := make([]DocumentSection, n)
	for i := range secs {
		secs[i] = DocumentSection{Start: verifrt.U32("start"), End: verifrt.U32("end")}
	}
	enc := marshalDocSections(secs)
	var buf []DocumentSection
	if verifrt.Bool("reuse") {
		buf = make([]DocumentSection, 1, verifrt.Concretize(verifrt.IntRange("cap", 1, 3)))
	}
	dec := unmarshalDocSections(enc, buf)
	verifrt.Assert(len(dec) == len(secs), "section count survives")
	for i := range secs {
		verifrt.Assert(dec[i].Start == secs[i].Start, "section start survives")
		verifrt.Assert(dec[i].End == secs[i].End, "section end survives")
	}
	verifrt.Reach("returned")
}

func H_C09_twin() {
	H_C09_deltas32()
	verifrt.Assert(false, "twin")
}

// DocChecker is reused across documents by Builder.Add: the verdict on a document must not
// depend on what was checked before it, and must be the documented reason.
func H_C09_docChecker() {
	var t DocChecker
	max := verifrt.Concretize(verifrt.IntRange("max", 1, 2))
	mk := func(name string) []byte {
		n := verifrt.Concretize(verifrt.IntRange(name+"len", 0, verifrt.Param("doclen", 5, 6)))
		b := verifrt.Bytes(name, n)
		for _, c := range b {
			verifrt.Assume(verifrt.Or(verifrt.Or(c == 'a', c == 'b'), c == 0))
		}
		return b
	}
	first, second := mk("first"), mk("second")
	r1 := t.Check(first, max, false)
	got := t.Check(second, max, false)
	var fresh DocChecker
	want := fresh.Check(second, max, false)
	verifrt.Observe("r1", int(r1))
	verifrt.Observe("got", int(got))
	verifrt.Assert(got == want, "the verdict on a document does not depend on the documents checked before it")
	// the documented reason, by a direct count of distinct trigrams
	ref := SkipReasonNone
	hasNul := false
	for _, c := range second {
		if c == 0 {
			hasNul = true
		}
	}
	switch {
	case len(second) == 0:
	case len(second) < 3:
		ref = SkipReasonTooSmall
	case hasNul:
		ref = SkipReasonBinary
	case len(second)-2 > max:
		distinct := 0
		for i := 0; i+3 <= len(second); i++ {
			seen := false
			for j := 0; j < i; j++ {
				if second[j] == second[i] && second[j+1] == second[i+1] && second[j+2] == second[i+2] {
					seen = true
				}
			}
			if !seen {
				distinct++
			}
		}
		if distinct > max {
			ref = SkipReasonTooManyTrigrams
		}
	}
	verifrt.Assert(got == ref, "skip reason is the documented one (empty, too small, binary, too many distinct trigrams)")
	verifrt.Reach("returned")
}

// H_C09_roundtrip (style P): a document with symbolic content bytes (ASCII, newline, the two bytes of
// a two-byte rune in any order - so valid and invalid UTF-8) next to a fixed one is written by the
// real writer, loaded by the real reader and read back through Search(const, Whole).
func H_C09_roundtrip() {
	verifrt.ClockConcrete()
	n := verifrt.Concretize(verifrt.IntRange("n", 0, verifrt.Param("n", 3, 4)))
	content := verifrt.Bytes("c", n)
	for _, c := range content {
		verifrt.Assume(verifrt.Or(verifrt.Or(c == 'a', c == 'b'), verifrt.Or(c == '\n', verifrt.Or(c == 0xC3, c == 0xA9))))
	}
	repo := verifRepo(7, "rt", "main", "dev")
	b, err := NewShardBuilder(repo)
	verifrt.Assert(err == nil, "builder")
	twoBranches := verifrt.Bool("both")
	br := []string{"dev"}
	if twoBranches {
		br = []string{"main", "dev"}
	}
	verifrt.Assert(b.Add(Document{Name: "sym.txt", Content: content, Branches: br, Language: "Text", Category: FileCategoryDefault}) == nil, "add symbolic document")
	verifrt.Assert(b.Add(Document{Name: "fixed.go", Content: []byte("package fixed\n"), Branches: []string{"main"}, Language: "Go", Category: FileCategoryDefault}) == nil, "add fixed document")
	d := verifLoad(verifWriteShard(b, "verif-rt.zoekt"))
	res, serr := d.Search(context.Background(), &query.Const{Value: true}, &zoekt.SearchOptions{Whole: true})
	verifrt.Assert(serr == nil, "search")
	verifrt.Assert(len(res.Files) == 2, "every document is read back")
	if len(res.Files) == 2 {
		f := res.Files[0]
		verifrt.Assert(f.FileName == "sym.txt" && res.Files[1].FileName == "fixed.go", "names and order are preserved")
		verifrt.Assert(string(f.Content) == string(content), "content is read back byte for byte")
		verifrt.Assert(string(res.Files[1].Content) == "package fixed\n", "the neighbouring document is intact")
		verifrt.Assert(f.Language == "Text" && res.Files[1].Language == "Go", "languages are preserved")
		if twoBranches {
			verifrt.Assert(len(f.Branches) == 2 && f.Branches[0] == "main" && f.Branches[1] == "dev", "branch membership is preserved (two branches)")
		} else {
			verifrt.Assert(len(f.Branches) == 1 && f.Branches[0] == "dev", "branch membership is preserved")
		}
		verifrt.Assert(f.Repository == "rt" && f.RepositoryID == 7, "repository metadata is preserved")
	}
	verifrt.Observe("n", n)
	verifrt.Reach("returned")
}
