//go:build verif

package search

import (
	"context"
	"sort"
	"strings"
	"time"

	"github.com/sourcegraph/zoekt"
	"github.com/sourcegraph/zoekt/query"
	verifrt "github.com/sourcegraph/zoekt/zz_verifrt"
)

// The reload path under a concurrent search: the real DirectoryWatcher.scan, the real loader
// (load with its goroutines, wait group and semaphore model; drop) and the real
// shardedSearcher.replace / getLoaded on the thread model. Only loadShard is replaced: it reads
// the file of the environment model and returns a fake shard that remembers the file's content
// (which generation of which repository it holds).

type c19Shard struct {
	file, content string
	closed        bool
}

func (s *c19Shard) repo() string { return strings.SplitN(s.content, " ", 2)[0] }
func (s *c19Shard) Search(ctx context.Context, q query.Q, opts *zoekt.SearchOptions) (*zoekt.SearchResult, error) {
	return &zoekt.SearchResult{}, nil
}
func (s *c19Shard) List(ctx context.Context, q query.Q, opts *zoekt.ListOptions) (*zoekt.RepoList, error) {
	return &zoekt.RepoList{Repos: []*zoekt.RepoListEntry{{Repository: zoekt.Repository{Name: s.repo()}}}}, nil
}
func (s *c19Shard) Close()         { s.closed = true }
func (s *c19Shard) String() string { return s.file }

func c19LoadShard(fn string) (zoekt.Searcher, error) {
	data, err := verifrt.OsReadFile(fn)
	if err != nil {
		return nil, err
	}
	return &c19Shard{file: fn, content: string(data)}, nil
}

// time.Since is replaced for this configuration: while c19Slow is set, any measured duration may
// be long (6 s) - the loader then publishes what it has loaded so far ("still need to load").
var c19Slow bool

func c19Since(t time.Time) time.Duration {
	if c19Slow && verifrt.Bool("this took more than five seconds") {
		return 6 * time.Second
	}
	return 0
}

type c19Sched struct{}

func (c19Sched) Acquire(ctx context.Context) (*process, error) {
	return &process{releaseFunc: func() {}}, nil
}

// what a search starting now would see of repository repo: "file=content" of every shard, sorted
func c19Snapshot(ss *shardedSearcher, repo string) string {
	var out []string
	for _, sh := range ss.getLoaded().shards {
		f := sh.Searcher.(*c19Shard)
		verifrt.Assert(!f.closed, "a shard handed to a search has not been closed")
		if f.repo() == repo {
			out = append(out, f.file+"="+f.content)
		}
	}
	sort.Strings(out)
	return strings.Join(out, ",")
}

func c19Put(gen string, version string, shards int, mtime int64) string {
	var out []string
	for i := 0; i < shards; i++ {
		p := "/idx/r_v" + version + ".0000" + string(rune('0'+i)) + ".zoekt"
		verifrt.FSPut(p, []byte("r "+gen))
		verifrt.FS[p].MTime = mtime
		out = append(out, p+"=r "+gen)
	}
	return strings.Join(out, ",")
}

// H_C19_reload: repository r is indexed as generation g0 (1 to 3 shards) and loaded by a first
// scan; the directory then changes completely to its next state - unchanged, re-indexed in place
// as g1 with 1 to 3 shards (surplus old shard deleted), re-indexed in a newer format version (old
// files still present), or deleted - and a second scan applies the change while a search takes its
// snapshot of the shard list at an arbitrary moment. The snapshot must hold either exactly the old
// or exactly the new shard set of r (never a part of one, never none while r exists in both, never
// a mixture), an untouched repository s must be in every snapshot, and after the scan the loaded
// set is the new one.
func H_C19_reload() {
	verifrt.ClockConcrete()
	verifrt.EnableThreads(300)
	verifrt.PreemptionBound(verifrt.Param("preemptions", -1, 1))
	verifrt.FSReset()
	verifrt.OsMkdirAll("/idx", 0o755)
	ss := &shardedSearcher{sched: c19Sched{}, shards: map[string]*rankedShard{}}
	w := &DirectoryWatcher{dir: "/idx", timestamps: map[string]time.Time{}, loader: &loader{ss: ss}}

	k0 := verifrt.Concretize(verifrt.IntRange("oldShards", 1, 3))
	old := c19Put("g0", "16", k0, 100)
	verifrt.FSPut("/idx/s_v16.00000.zoekt", []byte("s g0"))
	verifrt.FS["/idx/s_v16.00000.zoekt"].MTime = 100
	verifrt.Assert(w.scan() == nil, "first scan succeeds")
	verifrt.Assert(c19Snapshot(ss, "r") == old, "the first scan loads the index")

	// the indexer's work between two scans, complete
	var want, label string
	switch verifrt.Concretize(verifrt.IntRange("change", 0, 3)) {
	case 0:
		want, label = old, "unchanged"
	case 1:
		k1 := verifrt.Concretize(verifrt.IntRange("newShards", 1, 3))
		for i := k1; i < k0; i++ {
			verifrt.OsRemove("/idx/r_v16.0000" + string(rune('0'+i)) + ".zoekt")
		}
		want = c19Put("g1", "16", k1, 101)
		label = "re-indexed in place with " + string(rune('0'+k0)) + "->" + string(rune('0'+k1)) + " shards"
	case 2:
		k1 := verifrt.Concretize(verifrt.IntRange("newShards", 1, 3))
		want = c19Put("g1", "17", k1, 101)
		label = "re-indexed in a newer format version (old version's files still on disk)"
	default:
		for i := 0; i < k0; i++ {
			verifrt.OsRemove("/idx/r_v16.0000" + string(rune('0'+i)) + ".zoekt")
		}
		want, label = "", "deleted"
	}
	verifrt.Debug("change", label+"; old="+old+" new="+want)

	// the second scan may be slow: loading a shard may take more than five seconds
	c19Slow = true
	scanned := false
	verifrt.Go(func() {
		verifrt.Assert(w.scan() == nil, "second scan succeeds")
		scanned = true
	})
	searched := false
	verifrt.Go(func() {
		// a search takes its shard list once and keeps using it while the reload goes on
		held := ss.getLoaded().shards
		var before []*rankedShard
		before = append(before, held...)
		snap := c19Snapshot(ss, "r")
		other := c19Snapshot(ss, "s")
		verifrt.Assert(other == "/idx/s_v16.00000.zoekt=s g0", "a repository that did not change stays loaded throughout")
		if snap != old && snap != want {
			verifrt.Assert(false, "a concurrent search sees exactly the old or exactly the new shard set of a repository ("+label+")")
		}
		verifrt.WaitUntil(func() bool { return scanned })
		for i := range before {
			verifrt.Assert(held[i] == before[i], "the shard list handed to a search is never modified by a later reload")
		}
		searched = true
	})
	verifrt.WaitUntil(func() bool { return scanned && searched })
	verifrt.Assert(c19Snapshot(ss, "r") == want, "once the scan has finished the loaded shards are what is on disk")
	verifrt.Observe("change", label)
	verifrt.Reach("returned")
}
