//go:build verif

package search

import (
	"sort"
	"strings"
	"time"

	verifrt "github.com/sourcegraph/zoekt/zz_verifrt"
)

// DirectoryWatcher.scan (with versionFromPath) against the environment model: which of seven
// candidate files exist and their modification times are symbolic, and so is the watcher's memory
// of the previous scan (an arbitrary earlier state, so one step covers any history). After the
// scan the watcher tracks exactly the shards of the newest supported format version per name that
// are on disk, it loaded exactly the new or changed ones (a newer sidecar counts as a change) and
// dropped exactly the vanished ones; an immediate second scan loads and drops nothing.

type c19Loader struct {
	loaded, dropped []string
}

func (l *c19Loader) load(fs ...string) { l.loaded = append(l.loaded, fs...) }
func (l *c19Loader) drop(fs ...string) { l.dropped = append(l.dropped, fs...) }

var c19Shards = []struct {
	path    string
	name    string
	version int
}{
	{"/idx/r_v16.00000.zoekt", "r", 16},
	{"/idx/r_v16.00001.zoekt", "r", 16},
	{"/idx/r_v17.00000.zoekt", "r", 17},
	{"/idx/r_v99.00000.zoekt", "r", 99}, // a format this binary cannot read
	{"/idx/s_v16.00000.zoekt", "s", 16},
}

func c19Set(xs []string) string {
	s := append([]string(nil), xs...)
	sort.Strings(s)
	return strings.Join(s, ",")
}

func H_C19_scan() {
	verifrt.ClockConcrete()
	verifrt.FSReset()
	present := map[string]bool{}
	mtime := map[string]int64{}
	for _, sh := range c19Shards {
		if verifrt.Bool("present") {
			present[sh.path] = true
			verifrt.FSPut(sh.path, []byte("shard"))
			t := int64(verifrt.IntRange("mtime", 100, 102))
			verifrt.FS[sh.path].MTime = t
			mtime[sh.path] = t
		}
	}
	const sidecar = "/idx/r_v16.00000.zoekt.meta"
	if verifrt.Bool("sidecar") {
		verifrt.FSPut(sidecar, []byte("meta"))
		t := int64(verifrt.IntRange("sidecarMtime", 100, 103))
		verifrt.FS[sidecar].MTime = t
		if present["/idx/r_v16.00000.zoekt"] {
			mtime["/idx/r_v16.00000.zoekt"] = int64(verifrt.IteInt(t > mtime["/idx/r_v16.00000.zoekt"], int(t), int(mtime["/idx/r_v16.00000.zoekt"])))
		}
	}
	verifrt.FSPut("/idx/r_v16.00000.zoekt.5.tmp", []byte("partial"))

	ld := &c19Loader{}
	w := &DirectoryWatcher{dir: "/idx", timestamps: map[string]time.Time{}, loader: ld}
	// the watcher's memory of an earlier scan: any subset of the shard names (also of files that are
	// gone now), each with an arbitrary remembered time
	prior := map[string]int64{}
	for _, sh := range c19Shards {
		if verifrt.Bool("remembered") {
			t := int64(verifrt.IntRange("rememberedMtime", 100, 103))
			prior[sh.path] = t
			w.timestamps[sh.path] = time.Unix(t, 0)
		}
	}

	err := w.scan()
	verifrt.Assert(err == nil, "scan succeeds")

	// reference: newest supported version per name among the files present
	latest := map[string]int{}
	for _, sh := range c19Shards {
		if present[sh.path] && sh.version <= 17 && sh.version > latest[sh.name] {
			latest[sh.name] = sh.version
		}
	}
	var wantTracked, wantLoad, wantDrop []string
	for _, sh := range c19Shards {
		tracked := present[sh.path] && sh.version == latest[sh.name]
		if tracked {
			wantTracked = append(wantTracked, sh.path)
		}
		got, isTracked := w.timestamps[sh.path]
		verifrt.Assert(isTracked == tracked, "the watcher tracks exactly the present shards of the newest supported version per name")
		if tracked {
			verifrt.Assert(got.Unix() == mtime[sh.path], "the remembered time is the newer of shard and sidecar modification time")
		}
		p, remembered := prior[sh.path]
		inLoad, inDrop := false, false
		for _, l := range ld.loaded {
			inLoad = inLoad || l == sh.path
		}
		for _, d := range ld.dropped {
			inDrop = inDrop || d == sh.path
		}
		if tracked {
			changed := verifrt.Or(!remembered, p != mtime[sh.path])
			verifrt.Assert(inLoad == changed, "a shard is (re)loaded exactly when it is new or its (or its sidecar's) modification time changed")
			verifrt.Assert(!inDrop, "a tracked shard is not dropped")
		} else {
			verifrt.Assert(!inLoad, "nothing else is loaded (older versions, unreadable formats, temporary files)")
			verifrt.Assert(inDrop == remembered, "a shard that vanished (or was superseded) is dropped exactly once")
		}
	}
	_ = wantLoad
	_ = wantDrop
	verifrt.Assert(len(w.timestamps) == len(wantTracked), "no stray entries are tracked")
	// quiescence: scanning the unchanged directory again does nothing
	ld.loaded, ld.dropped = nil, nil
	verifrt.Assert(w.scan() == nil && len(ld.loaded) == 0 && len(ld.dropped) == 0, "a second scan of the unchanged directory loads and drops nothing")
	verifrt.Observe("tracked", c19Set(wantTracked))
	verifrt.Reach("returned")
}

func H_C19_twin() {
	verifrt.FSReset()
	w := &DirectoryWatcher{dir: "/idx", timestamps: map[string]time.Time{}, loader: &c19Loader{}}
	verifrt.Assert(w.scan() != nil, "twin")
}
