//go:build verif

package index

import (
	"context"
	"sort"
	"strings"

	"github.com/sourcegraph/zoekt"
	"github.com/sourcegraph/zoekt/query"
	verifrt "github.com/sourcegraph/zoekt/zz_verifrt"
)

// verifDefaultCategory replaces DetermineFileCategory in Builder.Add (go-enry's vendor/generated/test
// classification is a dependency and is not the subject here).
func verifDefaultCategory(doc *Document) {
	if doc.Category == FileCategoryMissing {
		doc.Category = FileCategoryDefault
	}
}

func verifC12Options() Options {
	return Options{
		IndexDir:              "/idx",
		RepositoryDescription: zoekt.Repository{ID: 1, Name: "r", Branches: []zoekt.RepositoryBranch{{Name: "main", Version: "v1"}}},
		ShardMax:              10, // every document closes a shard
		Parallelism:           1,
		DisableCTags:          true,
		SizeMax:               1 << 20,
		TrigramMax:            20000,
	}
}

// verifC12Build indexes n one-file documents of generation gen ("old"/"new") with the real Builder.
func verifC12Build(gen string, n int) error {
	b, err := NewBuilder(verifC12Options())
	if err != nil {
		return err
	}
	for i := 0; i < n; i++ {
		name := gen + string(rune('0'+i)) + ".go"
		if err := b.Add(Document{Name: name, Content: []byte("package " + gen + "\n// file " + name + " padding\n"), Branches: []string{"main"}, Language: "Go"}); err != nil {
			return err
		}
	}
	return b.Finish()
}

// verifC12Visible: the documents a loader serves from /idx: every *.zoekt file (never *.tmp) is loaded
// and searched; unreadable shards are reported as such.
func verifC12Visible() (docs []string, unreadable int) {
	paths, _ := verifrt.Glob("/idx/*.zoekt")
	for _, p := range paths {
		f, err := verifrt.OsOpen(p)
		if err != nil {
			unreadable++
			continue
		}
		inf, _ := verifNewIndexFile(f)
		s, err := NewSearcher(inf)
		if err != nil {
			unreadable++
			continue
		}
		res, err := s.Search(context.Background(), &query.Const{Value: true}, &zoekt.SearchOptions{})
		if err != nil {
			unreadable++
			continue
		}
		for _, fm := range res.Files {
			docs = append(docs, fm.FileName)
		}
	}
	sort.Strings(docs)
	return docs, unreadable
}

func verifC12Gen(docs []string, gen string, n int) bool {
	if len(docs) != n {
		return false
	}
	for _, d := range docs {
		if !strings.HasPrefix(d, gen) {
			return false
		}
	}
	return true
}

// H_C12_finish: an index of `old` shards (built by a first, undisturbed run of the real Builder) is
// re-indexed into `new` shards by a second run that is killed at a symbolic mutating file operation
// (or suffers one failing operation). Whatever is left on disk, a loader serves exactly the old
// documents or exactly the new ones, never a mixture, never an unreadable shard, never a temporary
// file; a run that returns nil has installed exactly the new index.
func H_C12_finish() {
	verifrt.ClockConcrete()
	verifrt.FSReset()
	old := verifrt.Concretize(verifrt.IntRange("oldShards", 0, verifrt.Param("shards", 2, 3)))
	nw := verifrt.Concretize(verifrt.IntRange("newShards", 1, verifrt.Param("shards", 2, 3)))
	if old > 0 {
		verifrt.Assume(verifC12Build("old", old) == nil)
	}
	start, _ := verifC12Visible()
	verifrt.Assume(verifC12Gen(start, "old", old))
	verifrt.FSMutations, verifrt.FSLog = 0, nil
	verifrt.FSFaults = verifrt.Concretize(verifrt.IntRange("faults", 0, 1))
	verifrt.FSCrashAt = verifrt.IntRange("crashAt", -1, 24)
	var err error
	crashed := verifrt.RunToCrash(func() { err = verifC12Build("new", nw) })
	docs, unreadable := verifC12Visible()
	verifrt.Observe("visible", len(docs))
	verifrt.Debug("file operations || visible", strings.Join(verifrt.FSLog, ";")+" || "+strings.Join(docs, ","))
	verifrt.Assert(unreadable == 0, "no unreadable shard is ever visible to the loader")
	isOld, isNew := verifC12Gen(docs, "old", old), verifC12Gen(docs, "new", nw)
	// where the run was interrupted: before it renamed anything into place, or in the middle of installing
	renames, interrupted := 0, false
	for _, l := range verifrt.FSLog {
		if strings.HasPrefix(l, "FAIL rename") {
			renames++ // a failing install rename is itself part of the installation phase
		}
		if strings.HasPrefix(l, "CRASH") || strings.HasPrefix(l, "FAIL") {
			interrupted = true
			break
		}
		if strings.HasPrefix(l, "rename ") {
			renames++
		}
	}
	kind := "single-shard index"
	if old > 1 || nw > 1 {
		kind = "multi-shard index"
	}
	phase := "not interrupted"
	if interrupted && renames == 0 {
		phase = "interrupted before anything was installed"
	} else if interrupted {
		phase = "interrupted during installation"
	}
	// what kind of mixture: every shard slot that exists in both indexes still holds the old or the
	// new shard (the documented weakness of a multi-rename install), or a slot lost both
	outcome := "mixture of whole old and new shards"
	common := old
	if nw < common {
		common = nw
	}
	for i := 0; i < common; i++ {
		id := string(rune('0' + i))
		have := false
		for _, d := range docs {
			if d == "old"+id+".go" || d == "new"+id+".go" {
				have = true
			}
		}
		if !have {
			outcome = "a shard present in both the old and the new index is gone"
		}
	}
	label := "the loader sees exactly the old or exactly the new index: " + kind + " (old shards=" + string(rune('0'+old)) + ", new shards=" + string(rune('0'+nw)) + "), " + phase + ": " + outcome
	verifrt.Assert(isOld || isNew, label)
	if !crashed && err == nil {
		verifrt.Assert(isNew, "a build that reports success has installed exactly the new index")
	}
	verifrt.Reach("returned")
}

func H_C12_twin() {
	verifrt.ClockConcrete()
	verifrt.FSReset()
	verifrt.Assume(verifC12Build("old", 1) == nil)
	docs, _ := verifC12Visible()
	verifrt.Assert(len(docs) == 77, "twin")
}
