//go:build verif

package index

import (
	"context"
	"sort"
	"strings"

	"github.com/sourcegraph/zoekt"
	"github.com/sourcegraph/zoekt/query"
	verifrt "github.com/sourcegraph/zoekt/zz_verifrt"
)

// Delta builds, the part that is zoekt's own code and not go-git's: the real Builder with IsDelta
// (shard numbering after the existing shards, MarkFileAsChangedOrRemoved, Finish's propagation of
// file tombstones, branch versions and metadata to every older shard through JSON sidecars), the
// real reader merging sidecars, and the real Search skipping tombstoned paths - on the environment
// model. What gitindex.prepareDeltaBuild computes from the two commits' trees with go-git is
// supplied by c13Delta below, a transliteration of its per-branch diff rules (stated assumption):
//   - a path added on a branch: its new blob is indexed for that branch, nothing is tombstoned;
//   - a path modified or deleted on a branch: the path is tombstoned in all older shards and every
//     version of the path in the new heads is indexed again, each with its branches.

var c13Paths = []string{"a.go", "b.go"}
var c13Branches = []string{"main", "dev"}

// state[path][branch] = content version, 0 = the path is absent from that branch's head
type c13State [2][2]int

func c13Content(p, v int) string {
	return "package p\n// " + c13Paths[p] + " version " + string(rune('0'+v)) + " needle\n"
}

func verifC13Options(run int, delta bool) Options {
	v := "commit" + string(rune('0'+run))
	return Options{
		IndexDir: "/idx",
		RepositoryDescription: zoekt.Repository{ID: 1, Name: "r", Branches: []zoekt.RepositoryBranch{
			{Name: "main", Version: v + "m"}, {Name: "dev", Version: v + "d"}}},
		ShardMax:     1 << 20,
		Parallelism:  1,
		DisableCTags: true,
		SizeMax:      1 << 20,
		TrigramMax:   20000,
		IsDelta:      delta,
	}
}

type c13Doc struct {
	path, version int
	branches      []string
}

// the documents of a full build of st: one per (path, content) with the branches that have it
func c13Full(st c13State) []c13Doc {
	var out []c13Doc
	for p := range c13Paths {
		for v := 1; v <= 2; v++ {
			var brs []string
			for b := range c13Branches {
				if st[p][b] == v {
					brs = append(brs, c13Branches[b])
				}
			}
			if len(brs) > 0 {
				out = append(out, c13Doc{p, v, brs})
			}
		}
	}
	return out
}

// c13Delta: what prepareDeltaBuild hands to the builder for old -> new (see the file comment)
func c13Delta(old, new c13State) (docs []c13Doc, tombstones []string) {
	type key struct{ p, v int }
	brs := map[key][]string{}
	add := func(p, v int, b string) {
		k := key{p, v}
		for _, x := range brs[k] {
			if x == b {
				return
			}
		}
		brs[k] = append(brs[k], b)
	}
	tomb := map[int]bool{}
	for b, bn := range c13Branches {
		for p := range c13Paths {
			o, n := old[p][b], new[p][b]
			if o == n {
				continue
			}
			if n != 0 {
				add(p, n, bn)
			}
			if o == 0 {
				continue // added: nothing more to do
			}
			// modified or deleted: every version of the path in the new heads, and a tombstone
			for b2, bn2 := range c13Branches {
				if new[p][b2] != 0 {
					add(p, new[p][b2], bn2)
				}
			}
			tomb[p] = true
		}
	}
	for p := range c13Paths {
		for v := 1; v <= 2; v++ {
			if b := brs[key{p, v}]; len(b) > 0 {
				sort.Strings(b)
				docs = append(docs, c13Doc{p, v, b})
			}
		}
		if tomb[p] {
			tombstones = append(tombstones, c13Paths[p])
		}
	}
	return docs, tombstones
}

func c13Build(run int, delta bool, docs []c13Doc, tombstones []string) error {
	b, err := NewBuilder(verifC13Options(run, delta))
	if err != nil {
		return err
	}
	for _, t := range tombstones {
		b.MarkFileAsChangedOrRemoved(t)
	}
	for _, d := range docs {
		if err := b.Add(Document{Name: c13Paths[d.path], Content: []byte(c13Content(d.path, d.version)), Branches: d.branches, Language: "Go"}); err != nil {
			return err
		}
	}
	return b.Finish()
}

// c13Views: what a search restricted to each branch finds in the shards of /idx: "path=version"
// sorted, one entry per document (every shard is loaded once and searched once per branch)
func c13Views() [2]string {
	paths, _ := verifrt.Glob("/idx/*.zoekt")
	var out [2][]string
	for _, p := range paths {
		var s zoekt.Searcher
		f, err := verifrt.OsOpen(p)
		if err == nil {
			inf, _ := verifNewIndexFile(f)
			s, err = NewSearcher(inf)
		}
		for b, br := range c13Branches {
			if err != nil {
				out[b] = append(out[b], "UNREADABLE "+p)
				continue
			}
			res, serr := s.Search(context.Background(), query.NewAnd(&query.Branch{Pattern: br, Exact: true}, &query.Substring{Pattern: "needle"}), &zoekt.SearchOptions{Whole: true})
			if serr != nil {
				out[b] = append(out[b], "FAILED "+p)
				continue
			}
			for _, fm := range res.Files {
				v := "?"
				for pi := range c13Paths {
					for ver := 1; ver <= 2; ver++ {
						if fm.FileName == c13Paths[pi] && string(fm.Content) == c13Content(pi, ver) {
							v = string(rune('0' + ver))
						}
					}
				}
				out[b] = append(out[b], fm.FileName+"="+v)
			}
		}
	}
	var r [2]string
	for b := range out {
		sort.Strings(out[b])
		r[b] = strings.Join(out[b], " ")
	}
	return r
}

func c13Want(st c13State, b int) string {
	var out []string
	for p := range c13Paths {
		if st[p][b] != 0 {
			out = append(out, c13Paths[p]+"="+string(rune('0'+st[p][b])))
		}
	}
	return strings.Join(out, " ")
}

func c13Symbolic(name string) c13State {
	var st c13State
	st[0][0] = verifrt.Concretize(verifrt.IntRange(name, 0, 2))
	st[0][1] = verifrt.Concretize(verifrt.IntRange(name, 0, verifrt.Param("devContents", 1, 2)))
	return st
}

// the second path follows one of three fixed histories (unchanged on both branches; modified on
// main only; deleted everywhere after the first run), chosen symbolically once per path
var c13Second = [3][3][2]int{
	{{1, 1}, {1, 1}, {1, 1}},
	{{1, 1}, {2, 1}, {2, 2}},
	{{1, 2}, {0, 0}, {1, 0}},
}

// H_C13_delta: a full build followed by a delta build and then by another delta build or a full
// re-index. The first path is in
// an arbitrary state (absent or one of two contents on each of two branches) before and after every
// run; the second path follows one fixed history (quick) / one of three (thorough).
// After every run, for each branch, a search restricted to the branch finds exactly one document
// per file of the branch's head, with the head content, and nothing else.
func H_C13_delta() {
	verifrt.ClockConcrete()
	verifrt.FSReset()
	verifrt.OsMkdirAll("/idx", 0o755)
	second := c13Second[verifrt.Concretize(verifrt.IntRange("secondPath", verifrt.Param("firstHistory", 1, 0), verifrt.Param("lastHistory", 1, 2)))]
	st := c13Symbolic("initial")
	st[1] = second[0]
	verifrt.Assert(c13Build(0, false, c13Full(st), nil) == nil, "the full build succeeds")
	runs := 2
	for run := 1; run <= runs; run++ {
		next := c13Symbolic("next")
		next[1] = second[run]
		// the last run is symbolically a delta build or a full re-index (what a delta build falls
		// back to when the branch set or the options changed)
		if run == runs && verifrt.Bool("lastRunIsFull") {
			verifrt.Assert(c13Build(run, false, c13Full(next), nil) == nil, "the full re-index succeeds")
		} else {
			docs, tombstones := c13Delta(st, next)
			err := c13Build(run, true, docs, tombstones)
			verifrt.Assert(err == nil, "the delta build succeeds")
		}
		st = next
		views := c13Views()
		for b, bn := range c13Branches {
			got, want := views[b], c13Want(st, b)
			verifrt.Observe("view", got)
			if got != want {
				verifrt.Debug("branch "+bn, "got ["+got+"] want ["+want+"]")
			}
			verifrt.Assert(got == want, "after every build a branch-restricted search finds exactly the branch head's files, one document each, with the head content")
		}
	}
	verifrt.Reach("returned")
}

func H_C13_twin() {
	verifrt.ClockConcrete()
	verifrt.FSReset()
	verifrt.OsMkdirAll("/idx", 0o755)
	var st c13State
	st[0][0] = 1
	verifrt.Assert(c13Build(0, false, c13Full(st), nil) == nil, "build")
	verifrt.Assert(c13Views()[0] == "", "twin")
}
