//go:build verif

package archive

import (
	"archive/tar"
	"bytes"
	"io"
	"sort"
	"strings"

	"github.com/sourcegraph/zoekt/index"
	verifrt "github.com/sourcegraph/zoekt/zz_verifrt"
)

// The archive handed to Index is a real tar stream (written by archive/tar, read back by zoekt's
// tarArchive through archive/tar, both interpreted) with a symbolic number of members (0-2 quick,
// 0-3 thorough), each a regular file, a directory or a symlink (case split) with a name of
// symbolic depth; Strip is symbolic. The index is built by the real Builder into the environment
// model. Index never panics; on success the loader sees exactly one document per regular member
// whose stripped name is non-empty, with that name and the member's content.

var verifTarBytes []byte

type verifReadCloser struct{ io.Reader }

func (verifReadCloser) Close() error { return nil }

func verifOpenReader(u string) (io.ReadCloser, error) {
	return verifReadCloser{bytes.NewReader(verifTarBytes)}, nil
}

func refStrip(path string, count int) string {
	parts := strings.Split(path, "/")
	if count >= len(parts) {
		return ""
	}
	return strings.Join(parts[count:], "/")
}

func H_C15_archive() {
	verifrt.ClockConcrete()
	verifrt.FSReset()
	names := []string{"a.txt", "top/b.txt", "top/sub/c.txt", "top/sub/deep/d.txt"}
	n := verifrt.Concretize(verifrt.IntRange("members", 0, verifrt.Param("members", 2, 3)))
	strip := verifrt.Concretize(verifrt.IntRange("strip", 0, 2))
	var buf bytes.Buffer
	tw := tar.NewWriter(&buf)
	var wantNames, wantContents []string
	for i := 0; i < n; i++ {
		kind := verifrt.Concretize(verifrt.IntRange("kind", 0, 2)) // 0 regular, 1 directory, 2 symlink
		name := names[verifrt.Concretize(verifrt.IntRange("name", 0, len(names)-1))]
		content := "content of member " + string(rune('0'+i)) + " " + name + "\n"
		switch kind {
		case 0:
			verifrt.Assume(tw.WriteHeader(&tar.Header{Name: name, Typeflag: tar.TypeReg, Mode: 0o644, Size: int64(len(content))}) == nil)
			_, err := tw.Write([]byte(content))
			verifrt.Assume(err == nil)
			if s := refStrip(name, strip); s != "" {
				wantNames = append(wantNames, s)
				wantContents = append(wantContents, content)
			}
		case 1:
			verifrt.Assume(tw.WriteHeader(&tar.Header{Name: name + "/", Typeflag: tar.TypeDir, Mode: 0o755}) == nil)
		case 2:
			verifrt.Assume(tw.WriteHeader(&tar.Header{Name: name, Typeflag: tar.TypeSymlink, Linkname: "elsewhere", Mode: 0o777}) == nil)
		}
	}
	verifrt.Assume(tw.Close() == nil)
	verifTarBytes = buf.Bytes()

	err := Index(Options{Archive: "/in/x.tar", Name: "arch", Branch: "main", Commit: "c1", Strip: strip},
		index.Options{IndexDir: "/idx", Parallelism: 1, DisableCTags: true, SizeMax: 1 << 20, TrigramMax: 20000, ShardMax: 1 << 20})
	verifrt.Observe("err", err != nil)
	verifrt.Assert(err == nil, "indexing a well-formed archive succeeds")
	gotNames, gotContents, unreadable := index.VerifVisibleDocs("/idx")
	verifrt.Assert(unreadable == 0, "the index written is readable")
	verifrt.Assert(len(gotNames) == len(wantNames), "one document per regular member with a non-empty stripped name")
	if len(gotNames) == len(wantNames) {
		// documents are ranked inside the shard; compare as multisets of (name, content)
		pair := func(ns, cs []string) []string {
			var out []string
			for i := range ns {
				out = append(out, ns[i]+"\x00"+cs[i])
			}
			sort.Strings(out)
			return out
		}
		g, w := pair(gotNames, gotContents), pair(wantNames, wantContents)
		for i := range g {
			verifrt.Assert(g[i] == w[i], "each document carries the stripped member name and the member's exact content")
		}
	}
	verifrt.Reach("returned")
}

func H_C15_strip() {
	// stripComponents on arbitrary short paths against the reference
	n := verifrt.Concretize(verifrt.IntRange("len", 0, verifrt.Param("pathlen", 4, 5)))
	b := verifrt.Bytes("path", n)
	for _, c := range b {
		verifrt.Assume(verifrt.Or(c == 'a', c == '/'))
	}
	count := verifrt.Concretize(verifrt.IntRange("count", 0, 3))
	got := stripComponents(string(b), count)
	// reference: remove count times everything up to and including the first '/'; "" if none left
	want := string(b)
	for i := 0; want != "" && i < count; i++ {
		j := strings.IndexByte(want, '/')
		if j < 0 {
			want = ""
			break
		}
		want = want[j+1:]
	}
	verifrt.Observe("gotlen", len(got))
	verifrt.Assert(got == want, "stripComponents removes exactly the requested leading path components")
	verifrt.Reach("returned")
}

func H_C15_twin() {
	verifrt.FSReset()
	names, _, _ := index.VerifVisibleDocs("/idx")
	verifrt.Assert(len(names) == 77, "twin")
}
