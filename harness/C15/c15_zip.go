//go:build verif

package archive

import (
	"archive/zip"
	"bytes"
	"io"
	"io/fs"
	"os"
	"time"

	verifrt "github.com/sourcegraph/zoekt/zz_verifrt"
)

// a zip file in memory with the two methods newZipArchive needs (ReadAt, Stat)
type verifZipFile struct {
	*bytes.Reader
	size int64
}

type verifZipInfo struct{ size int64 }

func (i verifZipInfo) Name() string       { return "x.zip" }
func (i verifZipInfo) Size() int64        { return i.size }
func (i verifZipInfo) Mode() fs.FileMode  { return 0o644 }
func (i verifZipInfo) ModTime() time.Time { return time.Time{} }
func (i verifZipInfo) IsDir() bool        { return false }
func (i verifZipInfo) Sys() any           { return nil }

func (f verifZipFile) Stat() (os.FileInfo, error) { return verifZipInfo{f.size}, nil }

// archive/zip keeps its method tables in sync.Map (unsafe hashing inside); only the Store method
// is used here, supplied directly (writer: RegisterCompressor; reader: the package-level lookup is
// replaced by verifZipDecompressor through the check's configuration).
type verifNopWriteCloser struct{ io.Writer }

func (verifNopWriteCloser) Close() error { return nil }

func verifZipDecompressor(method uint16) zip.Decompressor {
	if method == zip.Store {
		return io.NopCloser
	}
	return nil
}

type verifNopCloser struct{}

func (verifNopCloser) Close() error { return nil }

// H_C15_zip (kernel): a real zip file (written by archive/zip with the Store method, read back by
// zoekt's zipArchive through archive/zip, both interpreted) with 0-3 members, each symbolically a
// regular file, a directory entry, a symbolic link or a named pipe: the archive iterator yields
// exactly the regular members, in order, with their names and exact contents.
func H_C15_zip() {
	verifrt.ClockConcrete()
	n := verifrt.Concretize(verifrt.IntRange("members", 0, verifrt.Param("members", 2, 3)))
	var buf bytes.Buffer
	zw := zip.NewWriter(&buf)
	zw.RegisterCompressor(zip.Store, func(w io.Writer) (io.WriteCloser, error) { return verifNopWriteCloser{w}, nil })
	var wantNames, wantContents []string
	for i := 0; i < n; i++ {
		name := "m" + string(rune('0'+i))
		content := "content of " + name + "\n"
		h := &zip.FileHeader{Name: name, Method: zip.Store}
		switch verifrt.Concretize(verifrt.IntRange("kind", 0, 3)) {
		case 0:
			h.SetMode(0o644)
			wantNames = append(wantNames, name)
			wantContents = append(wantContents, content)
		case 1:
			h.Name = name + "/"
			h.SetMode(fs.ModeDir | 0o755)
			content = ""
		case 2:
			h.SetMode(fs.ModeSymlink | 0o777)
			content = "target"
		default:
			h.SetMode(fs.ModeNamedPipe | 0o644)
			content = ""
		}
		w, err := zw.CreateHeader(h)
		verifrt.Assume(err == nil)
		if content != "" {
			_, err = w.Write([]byte(content))
			verifrt.Assume(err == nil)
		}
	}
	verifrt.Assume(zw.Close() == nil)
	data := buf.Bytes()
	a, err := newZipArchive(verifZipFile{bytes.NewReader(data), int64(len(data))}, verifNopCloser{})
	verifrt.Assert(err == nil, "a well-formed zip file opens")
	if err != nil {
		return
	}
	var gotNames, gotContents []string
	for {
		f, err := a.Next()
		if err == io.EOF {
			break
		}
		verifrt.Assert(err == nil, "iterating a well-formed zip file succeeds")
		if err != nil {
			return
		}
		b, rerr := io.ReadAll(f)
		verifrt.Assert(rerr == nil, "a member's content can be read")
		gotNames = append(gotNames, f.Name)
		gotContents = append(gotContents, string(b))
	}
	verifrt.Assert(len(gotNames) == len(wantNames), "one entry per regular member: directories, symbolic links and special files are not documents")
	if len(gotNames) == len(wantNames) {
		for i := range gotNames {
			verifrt.Assert(gotNames[i] == wantNames[i] && gotContents[i] == wantContents[i], "each entry carries the member's name and exact content")
		}
	}
	verifrt.Observe("regular", len(wantNames))
	verifrt.Reach("returned")
}
