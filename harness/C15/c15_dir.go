//go:build verif

package main

import (
	"sort"
	"strings"

	"github.com/sourcegraph/zoekt/index"
	verifrt "github.com/sourcegraph/zoekt/zz_verifrt"
)

// The directory indexer: the real indexArg / fileAggregator.add / newIgnoreMatcher (with the ignore
// file parsed by ignore.ParseIgnoreFile and gobwas/glob, interpreted) over a symbolic tree in the
// environment model, walked by a transliteration of filepath.Walk (same SkipDir rules); the walker
// goroutine and its channel run on the thread model. The index is built by the real Builder.
// Tree: a file, an entry `.git` at the root and one in a sub-directory (each absent, a directory
// with a file inside, or a regular FILE - the gitdir pointer of submodules and worktrees), files
// in the sub-directory that sort before and after `.git`, a symlink (to a file, or outside the
// root), an optional ignore file. Every regular file and symlink outside ignored directories and
// ignore patterns becomes exactly one document; a symlink's content is its target string.
func H_C15_directory() {
	verifrt.ClockConcrete()
	verifrt.EnableThreads(200)
	verifrt.PreemptionBound(1)
	verifrt.FSReset()
	verifrt.FSMkdir("/src")
	verifrt.FSMkdir("/src/sub")
	want := map[string]string{}
	put := func(rel, content string) {
		verifrt.FSPut("/src/"+rel, []byte(content))
		want[rel] = content
	}
	put("a.txt", "alpha content\n")
	put("sub/main.go", "package main // sub\n")
	put("sub/zz.go", "package main // zz\n")
	put("zlast.txt", "omega content\n")
	for _, dir := range []string{"", "sub/"} {
		switch verifrt.Concretize(verifrt.IntRange("dotGit", 0, 2)) {
		case 1: // a directory: ignored with everything inside
			verifrt.FSMkdir("/src/" + dir + ".git")
			verifrt.FSPut("/src/"+dir+".git/config", []byte("[core]\n"))
		case 2: // a regular file named .git: an ordinary file
			put(dir+".git", "gitdir: ../.git/modules/sub\n")
		}
	}
	switch verifrt.Concretize(verifrt.IntRange("symlink", 0, 2)) {
	case 1:
		verifrt.FSPutSymlink("/src/link", "a.txt")
		want["link"] = "a.txt"
	case 2:
		verifrt.FSPutSymlink("/src/sub/out", "/etc/passwd-like-target")
		want["sub/out"] = "/etc/passwd-like-target"
	}
	if verifrt.Bool("ignoreFile") {
		verifrt.FSMkdir("/src/.sourcegraph")
		put(".sourcegraph/ignore", "sub/zz.go\n")
		delete(want, "sub/zz.go")
	}
	err := indexArg("/src", index.Options{IndexDir: "/idx", Parallelism: 1, DisableCTags: true, SizeMax: 1 << 20, TrigramMax: 20000, ShardMax: 1 << 20},
		map[string]struct{}{".git": {}, ".hg": {}, ".svn": {}})
	verifrt.Assert(err == nil, "indexing a readable directory succeeds")
	names, contents, unreadable := index.VerifVisibleDocs("/idx")
	verifrt.Assert(unreadable == 0, "the index written is readable")
	var got, exp []string
	for i := range names {
		got = append(got, names[i]+"\x00"+contents[i])
	}
	for n, c := range want {
		exp = append(exp, n+"\x00"+c)
	}
	sort.Strings(got)
	sort.Strings(exp)
	verifrt.Observe("ndocs", len(got))
	verifrt.Assert(len(got) == len(exp), "one document per regular file and per symlink outside ignored directories and ignore patterns: "+strings.ReplaceAll(strings.Join(exp, ","), "\x00", "="))
	if len(got) == len(exp) {
		for i := range got {
			verifrt.Assert(got[i] == exp[i], "each document has the file's path and exact content (a symlink: its target)")
		}
	}
	verifrt.Reach("returned")
}
