//go:build verif

package index

import (
	"github.com/sourcegraph/zoekt"
	verifrt "github.com/sourcegraph/zoekt/zz_verifrt"
)

// Line mode: a stream of batches goes through the display truncator; the concatenated
// output must be the prefix of the concatenated input, cut at the limits.
func H_C22_truncatorLines() {
	docLimit := verifrt.IntRange("docLimit", 0, 4)
	matchLimit := verifrt.IntRange("matchLimit", 0, 5)
	opts := &zoekt.SearchOptions{MaxDocDisplayCount: docLimit, MaxMatchDisplayCount: matchLimit}
	trunc, hasLimits := NewDisplayTruncator(opts)
	verifrt.Assert(hasLimits == (docLimit > 0 || matchLimit > 0), "hasLimits iff a limit is set")

	// input: up to 2 batches x up to 2 files x up to 2 lines x 1..2 fragments; fragment ids are unique
	var inFrag []uint32 // flattened fragment ids in input order
	var inFile []int    // file index of each fragment
	nextID := uint32(1)
	nFilesIn := 0
	var outFrag []uint32
	var outFile []int
	nFilesOut := 0
	stopped := false
	nb := verifrt.Concretize(verifrt.IntRange("batches", 1, 2))
	for b := 0; b < nb; b++ {
		maxFiles := 2
		if b > 0 {
			maxFiles = verifrt.Param("filesInSecondBatch", 1, 2)
		}
		nf := verifrt.Concretize(verifrt.IntRange("files", 0, maxFiles))
		var batch []zoekt.FileMatch
		for f := 0; f < nf; f++ {
			fm := zoekt.FileMatch{FileName: string(rune('A' + nFilesIn))}
			nl := verifrt.Concretize(verifrt.IntRange("lines", 1, 2))
			for l := 0; l < nl; l++ {
				lm := zoekt.LineMatch{LineNumber: l + 1}
				nfr := 1
				if l == 0 || verifrt.Param("freeFrags", 0, 1) == 1 {
					nfr = verifrt.Concretize(verifrt.IntRange("frags", 1, 2))
				}
				for k := 0; k < nfr; k++ {
					lm.LineFragments = append(lm.LineFragments, zoekt.LineFragmentMatch{Offset: nextID})
					inFrag = append(inFrag, nextID)
					inFile = append(inFile, nFilesIn)
					nextID++
				}
				fm.LineMatches = append(fm.LineMatches, lm)
			}
			batch = append(batch, fm)
			nFilesIn++
		}
		after, more := trunc(batch)
		if stopped {
			verifrt.Assert(len(after) == 0 && !more, "nothing is emitted after hasMore turned false")
		}
		for _, fm := range after {
			fi := int(fm.FileName[0] - 'A')
			for _, lm := range fm.LineMatches {
				verifrt.Assert(len(lm.LineFragments) > 0, "no empty line match is emitted")
				for _, fr := range lm.LineFragments {
					outFrag = append(outFrag, fr.Offset)
					outFile = append(outFile, fi)
				}
			}
			verifrt.Assert(fi == nFilesOut, "files come out in input order without gaps")
			nFilesOut++
		}
		if !more {
			stopped = true
		}
	}
	verifrt.Observe("filesOut", nFilesOut)
	verifrt.Observe("fragsOut", len(outFrag))
	// the output is a prefix of the input
	verifrt.Assert(len(outFrag) <= len(inFrag), "no more matches out than in")
	for i := range outFrag {
		verifrt.Assert(outFrag[i] == inFrag[i], "matches are the leading matches, in order")
		verifrt.Assert(outFile[i] == inFile[i], "matches stay in their file")
	}
	if docLimit > 0 {
		verifrt.Assert(nFilesOut <= docLimit, "at most MaxDocDisplayCount files")
	}
	if matchLimit > 0 {
		verifrt.Assert(len(outFrag) <= matchLimit, "at most MaxMatchDisplayCount matches")
	}
	// completeness: nothing is dropped unless a limit was reached
	expect := len(inFrag)
	if matchLimit > 0 && matchLimit < expect {
		expect = matchLimit
	}
	if docLimit > 0 {
		// matches that belong to the first docLimit files
		cnt := 0
		for i := range inFrag {
			if inFile[i] < docLimit {
				cnt++
			}
		}
		if cnt < expect {
			expect = cnt
		}
	}
	verifrt.Assert(len(outFrag) == expect, "exactly the matches allowed by the limits are returned")
	verifrt.Reach("returned")
}

func H_C22_twin() {
	H_C22_truncatorLines()
	verifrt.Assert(false, "twin")
}

// Chunk mode: a well-formed chunk (whole lines, ranges inside, trailing context) cut by the
// match limit still consists of whole lines covering its remaining ranges plus the context.
func H_C22_chunkCut() {
	first := 1 + verifrt.Concretize(verifrt.IntRange("firstLine", 0, 2))
	nr := verifrt.Concretize(verifrt.IntRange("ranges", 1, 3))
	var ranges []zoekt.Range
	line := first
	for i := 0; i < nr; i++ {
		s := line + verifrt.Concretize(verifrt.IntRange("gap", 0, 1))
		e := s + verifrt.Concretize(verifrt.IntRange("span", 0, 1)) // multi-line ranges
		ranges = append(ranges, zoekt.Range{
			Start: zoekt.Location{LineNumber: uint32(s), Column: 1},
			End:   zoekt.Location{LineNumber: uint32(e), Column: 2},
		})
		line = e
	}
	ctx := verifrt.Concretize(verifrt.IntRange("ctxAfter", 0, 2))
	lastLine := line + ctx
	// line i of the file is the single byte 'a'+i; Content = lines first..lastLine joined by \n
	var content []byte
	for l := first; l <= lastLine; l++ {
		if l > first {
			content = append(content, '\n')
		}
		content = append(content, byte('a'+l))
	}
	withSyms := verifrt.Bool("symbolInfo")
	cm := zoekt.ChunkMatch{Content: content, ContentStart: zoekt.Location{LineNumber: uint32(first), Column: 1}, Ranges: ranges}
	if withSyms {
		cm.SymbolInfo = make([]*zoekt.Symbol, len(ranges))
	}
	file := zoekt.FileMatch{ChunkMatches: []zoekt.ChunkMatch{cm}}
	limit := verifrt.Concretize(verifrt.IntRange("limit", 1, 4))
	rest := limitChunkMatches(&file, limit)
	verifrt.Observe("rest", rest)
	got := file.ChunkMatches[0]
	keep := nr
	if limit < keep {
		keep = limit
	}
	verifrt.Assert(len(got.Ranges) == keep, "the leading ranges are kept")
	verifrt.Assert(rest == limit-keep, "remaining limit accounts for the kept ranges")
	if withSyms {
		verifrt.Assert(len(got.SymbolInfo) == keep, "SymbolInfo stays parallel to Ranges")
	}
	wantLast := int(ranges[keep-1].End.LineNumber) + ctx
	var want []byte
	for l := first; l <= wantLast; l++ {
		if l > first {
			want = append(want, '\n')
		}
		want = append(want, byte('a'+l))
	}
	verifrt.Assert(string(got.Content) == string(want), "content = whole lines of the remaining ranges plus trailing context")
	verifrt.Reach("returned")
}
