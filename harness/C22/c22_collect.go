//go:build verif

package search

import (
	"path"

	"github.com/sourcegraph/zoekt"
	verifrt "github.com/sourcegraph/zoekt/zz_verifrt"
)

func c22Names(fs []zoekt.FileMatch) string {
	s := ""
	for _, f := range fs {
		s += f.FileName + " "
	}
	return s
}

// H_C22_collect: collectSender (the non-streaming aggregation: rank and truncate after every
// chunk when a display limit is set, rank once at the end when not) on 4-5 [4-6] files with distinct
// scores, arriving in two chunks (which chunk each file is in is symbolic), a document display
// limit k, and either one extension for all files or a symbolic choice of three per file. The
// limited result must be the first k files of the unlimited ranked result.
func H_C22_collect() {
	n := verifrt.Concretize(verifrt.IntRange("files", 4, verifrt.Param("maxFiles", 5, 6)))
	profiles := [][]float64{{10, 9.9, 9.8, 9.7, 9.6, 9.5}, {10, 9, 8, 7, 6, 5}}
	prof := profiles[verifrt.Concretize(verifrt.IntRange("profile", 0, verifrt.Param("profiles", 0, 1)))]
	mixed := verifrt.Bool("mixedExtensions")
	exts := []string{".go", ".md", ".rs"}
	k := verifrt.Concretize(verifrt.IntRange("limit", 1, n-1))
	var chunks [2][]zoekt.FileMatch
	var all []zoekt.FileMatch
	for i := 0; i < n; i++ {
		e := 0
		if mixed && i > 0 {
			e = verifrt.Concretize(verifrt.IntRange("ext", 0, 2))
		}
		f := zoekt.FileMatch{FileName: "f" + string(rune('a'+i)) + exts[e], Score: prof[i]}
		c := verifrt.Concretize(verifrt.IntRange("chunk", 0, 1))
		chunks[c] = append(chunks[c], f)
		all = append(all, f)
	}
	run := func(limit int) []zoekt.FileMatch {
		cs := newCollectSender(&zoekt.SearchOptions{MaxDocDisplayCount: limit})
		for _, c := range chunks {
			cs.Send(&zoekt.SearchResult{Files: append([]zoekt.FileMatch{}, c...)})
		}
		res, ok := cs.Done()
		if !ok {
			return nil
		}
		return res.Files
	}
	unlimited := run(0)
	limited := run(k)
	verifrt.Assert(len(unlimited) == n, "without a display limit every file is returned")
	verifrt.Assert(len(limited) == k, "with a document display limit exactly that many files are returned when there are more")
	want := c22Names(unlimited[:k])
	got := c22Names(limited)
	verifrt.Observe("limit", k)
	if want != got {
		if !mixed {
			verifrt.Assert(false, "files of one extension: the limited result is the beginning of the unlimited ranked result")
		} else {
			// which file the unlimited ranking promoted for its novel extension, if any
			promoted := ""
			if len(unlimited) > 3 && unlimited[2].Score < unlimited[3].Score {
				promoted = unlimited[2].FileName
			}
			inFirstChunkCut := false
			if promoted != "" && len(chunks[0]) > k {
				first := append([]zoekt.FileMatch{}, chunks[0]...)
				kept := run1(first, k)
				inFirstChunkCut = true
				for _, f := range kept {
					if f.FileName == promoted {
						inFirstChunkCut = false
					}
				}
				for _, f := range chunks[1] {
					if f.FileName == promoted {
						inFirstChunkCut = false
					}
				}
			}
			if inFirstChunkCut {
				verifrt.Assert(false, "mixed extensions: the file the unlimited ranking promotes for its novel extension was cut from the bounded aggregate by an earlier chunk's truncation ("+path.Ext(promoted)+")")
			} else {
				verifrt.Assert(false, "mixed extensions: the limited result is the beginning of the unlimited ranked result")
			}
		}
	}
	verifrt.Reach("returned")
}

func run1(files []zoekt.FileMatch, k int) []zoekt.FileMatch {
	cs := newCollectSender(&zoekt.SearchOptions{MaxDocDisplayCount: k})
	cs.Send(&zoekt.SearchResult{Files: files})
	res, _ := cs.Done()
	return res.Files
}
