//go:build verif

package index

import (
	"context"
	"regexp/syntax"

	"github.com/grafana/regexp"

	"github.com/sourcegraph/zoekt"
	"github.com/sourcegraph/zoekt/query"
	verifrt "github.com/sourcegraph/zoekt/zz_verifrt"
)

// verifC17Query: the query is chosen by a symbolic selector (control forks; the flags below stay symbolic).
func verifC17Query(k int) query.Q {
	switch k {
	case 0:
		return &query.Const{Value: true}
	case 1:
		return &query.Substring{Pattern: "needle", Content: true}
	case 2:
		return &query.Substring{Pattern: "a.go", FileName: true}
	case 3:
		return &query.RepoSet{Set: map[string]bool{"r1": true, "r2": true}}
	case 4:
		return &query.Not{Child: &query.RepoSet{Set: map[string]bool{"r1": true}}}
	case 5:
		return &query.Branch{Pattern: "dev"}
	case 6:
		return query.NewAnd(&query.Substring{Pattern: "needle"}, &query.Not{Child: &query.Substring{Pattern: "second"}})
	case 7:
		return query.NewOr(&query.Substring{Pattern: "nothing"}, &query.RepoSet{Set: map[string]bool{"r3": true}})
	case 8:
		return &query.Not{Child: &query.Substring{Pattern: "needle"}}
	case 9:
		// (type:repo never reaches a shard: the sharded searcher rewrites it; file-name type does)
		return &query.Type{Type: query.TypeFileName, Child: &query.Substring{Pattern: "needle"}}
	case 10:
		return &query.Repo{Regexp: regexp.MustCompile("r[12]")}
	case 11:
		return &query.Regexp{Regexp: verifMustParse("ne+dle"), Content: true}
	}
	return &query.Const{Value: false}
}

const verifC17Queries = 12

// verifC17Shard: the compound shard with symbolic repository tombstones and a symbolic
// tombstone of path a.go per repository, written and re-loaded through the real format.
func verifC17Shard() (d *indexData, tomb [3]bool, ftomb [3]bool) {
	b := verifThreeRepos()
	for i := 0; i < 3; i++ {
		tomb[i] = verifrt.Bool("tomb")
		ftomb[i] = verifrt.Bool("ftomb")
		b.repoList[i].Tombstone = tomb[i]
		if ftomb[i] {
			b.repoList[i].FileTombstones = map[string]struct{}{"a.go": {}}
		}
	}
	return verifLoad(verifWriteShard(b, "verif-compound.zoekt")), tomb, ftomb
}

// H_C17_hiddenSearch: no file of a tombstoned repository and no tombstoned path is ever returned.
func H_C17_hiddenSearch() {
	verifrt.ClockConcrete()
	d, tomb, ftomb := verifC17Shard()
	k := verifrt.Concretize(verifrt.IntRange("query", 0, verifC17Queries-1))
	chunks := verifrt.Bool("chunks")
	res, err := d.Search(context.Background(), verifC17Query(k), &zoekt.SearchOptions{ChunkMatches: chunks})
	verifrt.Assert(err == nil, "search succeeds")
	verifrt.Observe("nfiles", len(res.Files))
	for _, f := range res.Files {
		i := verifRepoIndex(f.Repository)
		verifrt.Assert(i >= 0, "result names a repository of the shard")
		verifrt.Assert(!tomb[i], "no file of a tombstoned repository is returned")
		verifrt.Assert(!(ftomb[i] && f.FileName == "a.go"), "no tombstoned path is returned")
	}
	for name := range res.RepoURLs {
		i := verifRepoIndex(name)
		verifrt.Assert(i >= 0 && !tomb[i], "RepoURLs does not name a tombstoned repository")
	}
	for name := range res.LineFragments {
		i := verifRepoIndex(name)
		verifrt.Assert(i >= 0 && !tomb[i], "LineFragments does not name a tombstoned repository")
	}
	verifrt.Reach("returned")
}

// H_C17_hiddenList: listings never contain a tombstoned repository.
func H_C17_hiddenList() {
	verifrt.ClockConcrete()
	d, tomb, _ := verifC17Shard()
	k := verifrt.Concretize(verifrt.IntRange("query", 0, verifC17Queries-1))
	asMap := verifrt.Bool("reposmap")
	opts := &zoekt.ListOptions{Field: zoekt.RepoListFieldRepos}
	if asMap {
		opts.Field = zoekt.RepoListFieldReposMap
	}
	rl, err := d.List(context.Background(), verifC17Query(k), opts)
	verifrt.Assert(err == nil, "list succeeds")
	verifrt.Observe("nrepos", len(rl.Repos)+len(rl.ReposMap))
	for _, e := range rl.Repos {
		i := verifRepoIndex(e.Repository.Name)
		verifrt.Assert(i >= 0 && !tomb[i], "no tombstoned repository is listed")
	}
	for id := range rl.ReposMap {
		verifrt.Assert(id >= 1 && id <= 3 && !tomb[id-1], "no tombstoned repository is listed (map)")
	}
	verifrt.Reach("returned")
}

func H_C17_twin() {
	verifrt.ClockConcrete()
	d, _, _ := verifC17Shard()
	res, _ := d.Search(context.Background(), &query.Const{Value: true}, &zoekt.SearchOptions{})
	verifrt.Assert(len(res.Files) == 77, "twin")
}

func verifMustParse(p string) *syntax.Regexp {
	re, err := syntax.Parse(p, syntax.Perl)
	if err != nil {
		panic(err)
	}
	return re
}
