//go:build verif

package index

import (
	"context"

	"github.com/sourcegraph/zoekt"
	"github.com/sourcegraph/zoekt/query"
	verifrt "github.com/sourcegraph/zoekt/zz_verifrt"
)

const verifC17Path = "/idx/compound_v17.00000.zoekt"

// verifC17Flags reads the repository tombstones back the way a reload does (sidecar precedence
// of the real parseMetadata), through the environment model.
func verifC17Flags() (flags [3]bool, ok bool) {
	repos, _, err := ReadMetadataPath(verifC17Path)
	if err != nil || len(repos) != 3 {
		return flags, false
	}
	for i, r := range repos {
		if int(r.ID) != i+1 || r.Name != "r"+string(rune('1'+i)) {
			return flags, false
		}
		// everything else the sidecar carries (here: path tombstones written by a delta build) is kept
		if (len(r.FileTombstones) > 0) != (verifC17PathTomb == i+1) {
			return flags, false
		}
		flags[i] = r.Tombstone
	}
	return flags, true
}

// verifC17PathTomb: 0 = no sidecar at the start; k = a sidecar exists that records a.go of repository k as tombstoned path
var verifC17PathTomb int

func verifC17Visible() []string {
	f, err := verifrt.OsOpen(verifC17Path)
	if err != nil {
		panic(err)
	}
	inf, _ := verifNewIndexFile(f)
	d := verifLoad(inf.(*verifMemFile))
	res, err := d.Search(context.Background(), &query.Const{Value: true}, &zoekt.SearchOptions{})
	if err != nil {
		panic(err)
	}
	var out []string
	for _, fm := range res.Files {
		out = append(out, fm.Repository+"/"+fm.FileName)
	}
	return out
}

// H_C17_setUnset: a symbolic sequence of SetTombstone / UnsetTombstone calls on a compound shard,
// with one injectable I/O failure anywhere (create, chmod, write, rename, remove). After every call
// the state is read back as a reload would: success means the flag is as requested; no other
// repository is touched (also on failure); repeating a call changes nothing; clearing every
// tombstone restores the original search result.
func H_C17_setUnset() {
	verifrt.ClockConcrete()
	verifrt.FSReset()
	shard := verifWriteShard(verifThreeRepos(), verifC17Path)
	verifrt.FSPut(verifC17Path, shard.data)
	verifC17PathTomb = verifrt.Concretize(verifrt.IntRange("pathTombRepo", 0, 3))
	if verifC17PathTomb > 0 {
		repos, _, err := ReadMetadataPath(verifC17Path)
		verifrt.Assume(err == nil)
		repos[verifC17PathTomb-1].FileTombstones = map[string]struct{}{"a.go": {}}
		tmp, final, err := JsonMarshalRepoMetaTemp(verifC17Path, repos)
		verifrt.Assume(err == nil)
		verifrt.Assume(verifrt.OsRename(tmp, final) == nil)
	}
	before := verifC17Visible()
	var ref [3]bool
	verifrt.FSFaults = verifrt.Concretize(verifrt.IntRange("faults", 0, 1))
	steps := verifrt.Param("ops", 2, 3)
	for s := 0; s < steps; s++ {
		set := verifrt.Bool("set")
		id := uint32(verifrt.Concretize(verifrt.IntRange("id", 1, 4)))
		var err error
		if set {
			err = SetTombstone(verifC17Path, id)
		} else {
			err = UnsetTombstone(verifC17Path, id)
		}
		got, ok := verifC17Flags()
		verifrt.Assert(ok, "after a set/unset the shard metadata is readable and everything but the one flag is as before")
		for i := 0; i < 3; i++ {
			if uint32(i+1) == id {
				if err == nil {
					verifrt.Assert(got[i] == set, "an operation that reports success has taken effect")
					ref[i] = set
				} else {
					verifrt.Assert(got[i] == ref[i] || got[i] == set, "a failed operation leaves the old or the requested state")
					ref[i] = got[i]
				}
			} else {
				verifrt.Assert(got[i] == ref[i], "set/unset affects only the named repository")
			}
		}
		if err == nil && verifrt.FSFaults == 0 {
			// idempotence: doing it again changes nothing
			if set {
				err = SetTombstone(verifC17Path, id)
			} else {
				err = UnsetTombstone(verifC17Path, id)
			}
			again, ok2 := verifC17Flags()
			verifrt.Assert(err == nil && ok2 && again == got, "set/unset is idempotent")
		}
	}
	if !ref[0] && !ref[1] && !ref[2] {
		after := verifC17Visible()
		verifrt.Assert(len(after) == len(before), "clearing the tombstones restores the previous results")
		if len(after) == len(before) {
			for i := range after {
				verifrt.Assert(after[i] == before[i], "clearing the tombstones restores the previous results (same files)")
			}
		}
	}
	verifrt.Observe("flags", verifrt.B2I(ref[0])+2*verifrt.B2I(ref[1])+4*verifrt.B2I(ref[2]))
	verifrt.Reach("returned")
}
