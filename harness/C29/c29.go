//go:build verif

package index

import (
	"context"
	"math"
	"path"

	"github.com/sourcegraph/zoekt"
	"github.com/sourcegraph/zoekt/query"
	verifrt "github.com/sourcegraph/zoekt/zz_verifrt"
)

// Style P: a real shard over a corpus with several file types, repeated matches, matches in file
// names and symbols' neighbourhood; the content/name substring query is symbolic (3 bytes), scoring
// mode (classic / BM25), output mode (lines / chunks) are symbolic. The search is run twice with
// DebugScore off and once with it on. Scores are concrete IEEE doubles computed by the real scoring
// code (the engine interprets float arithmetic concretely; math.Log etc. natively).

var verifC29Corpus = []verifDoc{
	{name: "main.go", content: "package main\nfunc needle() {}\nfunc other() { needle() }\n// needle again\n"},
	{name: "util/needle.go", content: "package util\nvar x = 1\n"},
	{name: "README.md", content: "# needle\nthe needle docs\nfoo bar foo\n"},
	{name: "notes.txt", content: "foo\nfoo foo\nbar needle\n"},
	{name: "script.py", content: "def needle():\n    return foo\n"},
	{name: "vendor/lib.go", content: "package lib // needle foo\n"},
	{name: "zz.md", content: "bar\n"},
}

type verifC29Key struct {
	file  string
	score float64
}

func verifC29Run(d *indexData, q query.Q, opts zoekt.SearchOptions) []zoekt.FileMatch {
	res, err := d.Search(context.Background(), q, &opts)
	if err != nil {
		panic(err)
	}
	files := res.Files
	SortFiles(files)
	return files
}

func verifFinite(f float64) bool { return !math.IsNaN(f) && !math.IsInf(f, 0) }

func H_C29_ranking() {
	verifrt.ClockConcrete()
	repo := verifRepo(1, "r1", "main")
	repo.Rank = 5000
	d := verifSimpleShard(repo, verifC29Corpus)
	pat, caseSensitive := verifC02Pattern()
	for _, c := range pat {
		verifrt.Assume(c != '\n')
	}
	opts := zoekt.SearchOptions{ChunkMatches: verifrt.Bool("chunks"), UseBM25Scoring: verifrt.Bool("bm25")}
	q := &query.Substring{Pattern: string(pat), CaseSensitive: caseSensitive}
	a := verifC29Run(d, q, opts)
	b := verifC29Run(d, q, opts)
	dbg := opts
	dbg.DebugScore = true
	c := verifC29Run(d, q, dbg)
	verifrt.Observe("nfiles", len(a))
	verifrt.Assert(len(a) == len(b) && len(a) == len(c), "the same search returns the same number of files every time, with and without score debugging")
	if len(a) != len(b) || len(a) != len(c) {
		return
	}
	for i := range a {
		verifrt.Assert(a[i].Score == b[i].Score, "repeating a search gives the same scores in the same positions")
		verifrt.Assert(a[i].Score == c[i].Score, "score debugging does not change file scores or their order")
		verifrt.Assert(verifFinite(a[i].Score), "file scores are finite")
		if i+1 >= len(a) || a[i].Score != a[i+1].Score {
			if i == 0 || a[i].Score != a[i-1].Score {
				verifrt.Assert(a[i].FileName == b[i].FileName && a[i].FileName == c[i].FileName, "files with distinct scores come in the same order every time")
			}
		}
		verifrt.Assert(len(a[i].LineMatches) == len(c[i].LineMatches) && len(a[i].ChunkMatches) == len(c[i].ChunkMatches), "score debugging does not change the matches")
		for j, lm := range a[i].LineMatches {
			verifrt.Assert(verifFinite(lm.Score), "line scores are finite")
			verifrt.Assert(j == 0 || a[i].LineMatches[j-1].Score >= lm.Score, "line matches of a file are ordered by non-increasing score")
			if a[i].FileName == c[i].FileName {
				verifrt.Assert(lm.Score == c[i].LineMatches[j].Score, "score debugging does not change line scores")
			}
		}
		for j, cm := range a[i].ChunkMatches {
			verifrt.Assert(verifFinite(cm.Score), "chunk scores are finite")
			verifrt.Assert(j == 0 || a[i].ChunkMatches[j-1].Score >= cm.Score, "chunk matches of a file are ordered by non-increasing score")
			if a[i].FileName == c[i].FileName {
				verifrt.Assert(cm.Score == c[i].ChunkMatches[j].Score, "score debugging does not change chunk scores")
			}
		}
	}
	verifCheckFileOrder(a)
	verifrt.Reach("returned")
}

func H_C29_twin() {
	verifrt.ClockConcrete()
	d := verifSimpleShard(verifRepo(1, "r1", "main"), verifC29Corpus)
	verifrt.Assert(len(verifC29Run(d, &query.Substring{Pattern: "needle"}, zoekt.SearchOptions{})) == 77, "twin")
}

// verifCheckFileOrder: files are in non-increasing score order, except that the third place may hold
// ONE promoted file: taking it out leaves a non-increasing sequence, its extension is not among the
// first two files' extensions, and its score is at least 90% of the file it displaced.
func verifCheckFileOrder(a []zoekt.FileMatch) {
	sorted := true
	for i := 1; i < len(a); i++ {
		if a[i-1].Score < a[i].Score {
			sorted = false
		}
	}
	if sorted {
		verifrt.Assert(true, "files are ordered by non-increasing score")
		return
	}
	verifrt.Assert(len(a) > 3, "fewer than four files are in plain score order")
	if len(a) <= 3 {
		return
	}
	rest := append(append([]zoekt.FileMatch{}, a[:2]...), a[3:]...)
	for i := 1; i < len(rest); i++ {
		verifrt.Assert(rest[i-1].Score >= rest[i].Score, "apart from one promoted file in third place, files are ordered by non-increasing score")
	}
	e := path.Ext(a[2].FileName)
	verifrt.Assert(e != path.Ext(a[0].FileName) && e != path.Ext(a[1].FileName), "only a file with an extension not among the first two is promoted to third place")
	verifrt.Assert(a[2].Score >= 0.9*a[3].Score, "a promoted file scores at least 90% of the file it displaced")
}

// H_C29_sortFiles (kernel): SortFiles on 4-6 files whose extensions are a symbolic choice among three
// and whose scores follow one of three profiles (all within 10%, spread out, with ties); input order
// is a symbolic rotation.
func H_C29_sortFiles() {
	n := verifrt.Concretize(verifrt.IntRange("files", 3, 6))
	profiles := [][]float64{{10, 9.9, 9.8, 9.7, 9.6, 9.5}, {10, 9, 8, 7, 6, 5}, {10, 10, 9.5, 9.5, 9.2, 9.2}}
	prof := profiles[verifrt.Concretize(verifrt.IntRange("profile", 0, 2))]
	exts := []string{".go", ".md", ".rs"}
	rot := verifrt.Concretize(verifrt.IntRange("rotation", 0, 2))
	files := make([]zoekt.FileMatch, n)
	for i := 0; i < n; i++ {
		k := (i + rot) % n
		files[k] = zoekt.FileMatch{FileName: "f" + string(rune('a'+i)) + exts[verifrt.Concretize(verifrt.IntRange("ext", 0, 2))], Score: prof[i]}
	}
	SortFiles(files)
	verifrt.Observe("files", n)
	seen := map[string]bool{}
	for _, f := range files {
		verifrt.Assert(!seen[f.FileName], "sorting neither duplicates nor drops a file")
		seen[f.FileName] = true
	}
	verifCheckFileOrder(files)
	verifrt.Reach("returned")
}
