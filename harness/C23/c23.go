//go:build verif

package index

import (
	"context"

	"github.com/grafana/regexp"
	"github.com/sourcegraph/zoekt"
	"github.com/sourcegraph/zoekt/internal/tenant/systemtenant"
	"github.com/sourcegraph/zoekt/internal/tenant/tenanttest"
	"github.com/sourcegraph/zoekt/query"
	verifrt "github.com/sourcegraph/zoekt/zz_verifrt"
)

// verifC23Shard: compound shard of three repositories whose owning tenant (1 or 2) is symbolic;
// strict tenant enforcement is switched on through SRC_TENANT_ENFORCEMENT_MODE (config env).
func verifC23Shard() (*indexData, [3]int) {
	b := verifThreeRepos()
	var owner [3]int
	for i := 0; i < 3; i++ {
		owner[i] = verifrt.IntRange("owner", 1, 2)
		b.repoList[i].TenantID = owner[i]
	}
	// repository names are only unique per tenant: optionally the third repository carries the
	// first one's name (ids stay 1..3)
	verifC23SameName = verifrt.Bool("sameName")
	if verifC23SameName {
		b.repoList[2].Name = "r1"
	}
	return verifLoad(verifWriteShard(b, "verif-compound.zoekt")), owner
}

var verifC23SameName bool

// verifC23Ctx: 1, 2 = that tenant; 0 = no tenant in the context; 3 = the system tenant.
func verifC23Ctx(kind int) context.Context {
	tenanttest.ResetTestTenants()
	switch kind {
	case 1:
		return tenanttest.NewTestContext()
	case 2:
		tenanttest.NewTestContext()
		return tenanttest.NewTestContext()
	case 3:
		return systemtenant.WithUnsafeContext(context.Background())
	}
	return context.Background()
}

func verifC23Query(k int) query.Q {
	switch k {
	case 0:
		return &query.Const{Value: true}
	case 1:
		return &query.Substring{Pattern: "needle", Content: true}
	case 2:
		return &query.RepoSet{Set: map[string]bool{"r1": true, "r2": true, "r3": true}}
	case 3:
		return &query.Not{Child: &query.Substring{Pattern: "needle"}}
	case 4:
		return &query.Branch{Pattern: "main"}
	case 5:
		return query.NewOr(&query.RepoSet{Set: map[string]bool{"r1": true}}, &query.Substring{Pattern: "a.go", FileName: true})
	case 6:
		return query.NewRepoIDs(1, 2, 3)
	case 7:
		return &query.Repo{Regexp: regexp.MustCompile("r[123]")}
	case 8:
		return query.NewSingleBranchesRepos("main", 1, 2, 3)
	case 9:
		// what the sharded searcher's typeRepoSearcher hands a shard for type:repo (it rewrites the
		// atom into a RepoSet built from List; indexData.newMatchTree itself rejects TypeRepo)
		return query.NewAnd(&query.RepoSet{Set: map[string]bool{"r1": true, "r2": true, "r3": true}}, &query.Substring{Pattern: "needle", FileName: true})
	case 10:
		return &query.Type{Type: query.TypeFileName, Child: &query.Substring{Pattern: "needle"}}
	}
	return &query.Const{Value: false}
}

const verifC23Queries = 11

// H_C23_search: a tenant's search result names only that tenant's repositories, in the files
// and in the per-repository URL / line-fragment template maps.
func H_C23_search() {
	verifrt.ClockConcrete()
	d, owner := verifC23Shard()
	kind := verifrt.Concretize(verifrt.IntRange("ctx", 0, 3))
	ctx := verifC23Ctx(kind)
	k := verifrt.Concretize(verifrt.IntRange("query", 0, verifC23Queries-1))
	res, err := d.Search(ctx, verifC23Query(k), &zoekt.SearchOptions{})
	verifrt.Assert(err == nil, "search succeeds")
	verifrt.Observe("nfiles", len(res.Files))
	if kind == 3 {
		if k == 0 {
			verifrt.Assert(len(res.Files) == 6, "the system tenant sees every file")
		}
		verifrt.Reach("returned")
		return
	}
	for _, f := range res.Files {
		i := int(f.RepositoryID) - 1
		verifrt.Assert(i >= 0 && i < 3 && kind != 0 && owner[i] == kind, "every returned file belongs to the requesting tenant")
	}
	ownsName := func(name string) bool {
		i := verifRepoIndex(name)
		if i < 0 || kind == 0 {
			return false
		}
		if owner[i] == kind {
			return true
		}
		return verifC23SameName && name == "r1" && owner[2] == kind
	}
	for name := range res.RepoURLs {
		verifrt.Assert(ownsName(name), "RepoURLs names only the requesting tenant's repositories")
	}
	for name := range res.LineFragments {
		verifrt.Assert(ownsName(name), "LineFragments names only the requesting tenant's repositories")
	}
	if k == 0 && kind != 0 {
		n := 0
		for i := 0; i < 3; i++ {
			if owner[i] == kind {
				n += 2
			}
		}
		verifrt.Assert(len(res.Files) == n, "a tenant still sees all of its own files")
	}
	verifrt.Reach("returned")
}

// H_C23_list: listings contain only the requesting tenant's repositories.
func H_C23_list() {
	verifrt.ClockConcrete()
	d, owner := verifC23Shard()
	kind := verifrt.Concretize(verifrt.IntRange("ctx", 0, 3))
	ctx := verifC23Ctx(kind)
	k := verifrt.Concretize(verifrt.IntRange("query", 0, verifC23Queries-1))
	opts := &zoekt.ListOptions{Field: zoekt.RepoListFieldRepos}
	if verifrt.Bool("reposmap") {
		opts.Field = zoekt.RepoListFieldReposMap
	}
	rl, err := d.List(ctx, verifC23Query(k), opts)
	verifrt.Assert(err == nil, "list succeeds")
	verifrt.Observe("nrepos", len(rl.Repos)+len(rl.ReposMap))
	if kind == 3 {
		if k == 0 {
			verifrt.Assert(len(rl.Repos)+len(rl.ReposMap) == 3, "the system tenant lists every repository")
		}
		verifrt.Reach("returned")
		return
	}
	for _, e := range rl.Repos {
		i := int(e.Repository.ID) - 1
		verifrt.Assert(i >= 0 && i < 3 && kind != 0 && owner[i] == kind, "only the requesting tenant's repositories are listed")
	}
	for id := range rl.ReposMap {
		verifrt.Assert(id >= 1 && id <= 3 && kind != 0 && owner[id-1] == kind, "only the requesting tenant's repositories are listed (map)")
	}
	verifrt.Reach("returned")
}

// H_C23_tombstoned: tenant filtering composed with tombstones. One repository of the compound
// shard (symbolic position, or none) is tombstoned; a tenant's or tenant-less search and listing
// still name only the requester's live repositories in Files, RepoURLs, LineFragments and Repos.
func H_C23_tombstoned() {
	verifrt.ClockConcrete()
	b := verifThreeRepos()
	var owner [3]int
	for i := 0; i < 3; i++ {
		owner[i] = verifrt.IntRange("owner", 1, 2)
		b.repoList[i].TenantID = owner[i]
	}
	tomb := verifrt.Concretize(verifrt.IntRange("tomb", -1, 2))
	if tomb >= 0 {
		b.repoList[tomb].Tombstone = true
	}
	d := verifLoad(verifWriteShard(b, "verif-compound.zoekt"))
	kind := verifrt.Concretize(verifrt.IntRange("ctx", 0, 2))
	ctx := verifC23Ctx(kind)
	nq := verifrt.Param("tombQueries", 3, verifC23Queries)
	k := verifrt.Concretize(verifrt.IntRange("query", 0, nq-1))
	visible := func(i int) bool { return i >= 0 && i < 3 && kind != 0 && owner[i] == kind && i != tomb }
	res, err := d.Search(ctx, verifC23Query(k), &zoekt.SearchOptions{})
	verifrt.Assert(err == nil, "search succeeds")
	for _, f := range res.Files {
		verifrt.Assert(visible(int(f.RepositoryID)-1), "every returned file belongs to a live repository of the requesting tenant")
	}
	for name := range res.RepoURLs {
		verifrt.Assert(visible(verifRepoIndex(name)), "RepoURLs names only live repositories of the requesting tenant")
	}
	for name := range res.LineFragments {
		verifrt.Assert(visible(verifRepoIndex(name)), "LineFragments names only live repositories of the requesting tenant")
	}
	if k == 0 {
		n := 0
		for i := 0; i < 3; i++ {
			if visible(i) {
				n += 2
			}
		}
		verifrt.Assert(len(res.Files) == n, "a tenant still sees all files of its live repositories")
	}
	rl, err := d.List(ctx, verifC23Query(k), &zoekt.ListOptions{Field: zoekt.RepoListFieldRepos})
	verifrt.Assert(err == nil, "list succeeds")
	for _, e := range rl.Repos {
		verifrt.Assert(visible(int(e.Repository.ID)-1), "only live repositories of the requesting tenant are listed")
	}
	rm, err := d.List(ctx, verifC23Query(k), &zoekt.ListOptions{Field: zoekt.RepoListFieldReposMap})
	verifrt.Assert(err == nil, "list (map) succeeds")
	for id := range rm.ReposMap {
		verifrt.Assert(visible(int(id)-1), "only live repositories of the requesting tenant are listed (map)")
	}
	if k == 0 {
		n := 0
		for i := 0; i < 3; i++ {
			if visible(i) {
				n++
			}
		}
		verifrt.Assert(len(rl.Repos) == n && len(rm.ReposMap) == n, "a tenant still lists all of its live repositories")
	}
	verifrt.Reach("returned")
}

func H_C23_twin() {
	verifrt.ClockConcrete()
	d, _ := verifC23Shard()
	res, _ := d.Search(verifC23Ctx(1), &query.Const{Value: true}, &zoekt.SearchOptions{})
	verifrt.Assert(len(res.Files) == 77, "twin")
}
