//go:build verif

package syntaxutil

import (
	"regexp/syntax"

	verifrt "github.com/sourcegraph/zoekt/zz_verifrt"
)

// Regexp trees are built directly (every Op the printer handles), with symbolic runes in the literal
// and class positions and symbolic small repeat counts. Oracle (differential, structural): the text
// zoekt's printer produces parses, and parses to the same tree as the text the standard library's
// own printer produces for that tree - equal parse trees denote equal languages.

func c27Rune(name string) rune {
	// one symbolic ASCII code point (printable, meta characters and control characters alike), or
	// one of a few concrete non-ASCII ones: Latin-1 printable, Latin-1 non-printable, a non-printable
	// beyond 0xFF (thorough tier: kinds 0-3; the supplementary-plane rune and the last valid code point make
	// regexp/syntax.calcFlags loop past the unwinding bound on a symbolic class and are not registered)
	switch verifrt.Concretize(verifrt.IntRange(name+"Kind", 0, verifrt.Param("runeKinds", 1, 3))) {
	case 0:
		r := verifrt.Rune(name)
		verifrt.Assume(r >= 0 && r <= 0x7F)
		return r
	case 1:
		return 0xE9
	case 2:
		return 0x85
	case 3:
		return 0x2028
	case 4:
		return 0x1F600
	}
	return 0x10FFFF
}

func c27Lit(name string) *syntax.Regexp {
	return &syntax.Regexp{Op: syntax.OpLiteral, Rune: []rune{c27Rune(name)}}
}

func c27Tree(k int) *syntax.Regexp {
	un := func(op syntax.Op, flags syntax.Flags, sub *syntax.Regexp) *syntax.Regexp {
		return &syntax.Regexp{Op: op, Flags: flags, Sub: []*syntax.Regexp{sub}}
	}
	switch k {
	case 0:
		return c27Lit("r")
	case 1:
		return &syntax.Regexp{Op: syntax.OpLiteral, Rune: []rune{c27Rune("r1"), c27Rune("r2")}}
	case 2:
		lo, hi := c27Rune("lo"), c27Rune("hi")
		verifrt.Assume(lo <= hi)
		return &syntax.Regexp{Op: syntax.OpCharClass, Rune: []rune{lo, hi}}
	case 3:
		lo, hi := c27Rune("lo"), c27Rune("hi")
		verifrt.Assume(lo <= hi)
		return &syntax.Regexp{Op: syntax.OpCharClass, Rune: []rune{lo, hi, 'x', 'z'}}
	case 4:
		return un(syntax.OpStar, 0, c27Lit("r"))
	case 5:
		return un(syntax.OpPlus, syntax.NonGreedy, c27Lit("r"))
	case 6:
		return un(syntax.OpQuest, 0, c27Lit("r"))
	case 7:
		min := verifrt.Concretize(verifrt.IntRange("min", 0, 2))
		max := verifrt.Concretize(verifrt.IntRange("max", -1, 3))
		verifrt.Assume(max == -1 || max >= min)
		re := un(syntax.OpRepeat, 0, c27Lit("r"))
		re.Min, re.Max = min, max
		return re
	case 8:
		return &syntax.Regexp{Op: syntax.OpConcat, Sub: []*syntax.Regexp{c27Lit("r1"), un(syntax.OpStar, 0, c27Lit("r2"))}}
	case 9:
		return &syntax.Regexp{Op: syntax.OpAlternate, Sub: []*syntax.Regexp{un(syntax.OpStar, 0, c27Lit("r1")), un(syntax.OpPlus, 0, c27Lit("r2"))}}
	case 10:
		re := un(syntax.OpCapture, 0, c27Lit("r"))
		re.Cap = 1
		return re
	case 11:
		re := un(syntax.OpCapture, 0, &syntax.Regexp{Op: syntax.OpAlternate, Sub: []*syntax.Regexp{c27Lit("r1"), &syntax.Regexp{Op: syntax.OpEmptyMatch}}})
		re.Cap, re.Name = 1, "n"
		return re
	case 12:
		return &syntax.Regexp{Op: syntax.OpConcat, Sub: []*syntax.Regexp{{Op: syntax.OpBeginLine}, c27Lit("r"), {Op: syntax.OpEndLine}}}
	case 13:
		return &syntax.Regexp{Op: syntax.OpConcat, Sub: []*syntax.Regexp{{Op: syntax.OpBeginText}, {Op: syntax.OpAnyCharNotNL}, {Op: syntax.OpAnyChar}, {Op: syntax.OpEndText, Flags: syntax.WasDollar}}}
	case 14:
		return &syntax.Regexp{Op: syntax.OpConcat, Sub: []*syntax.Regexp{{Op: syntax.OpWordBoundary}, c27Lit("r"), {Op: syntax.OpNoWordBoundary}}}
	case 15:
		return &syntax.Regexp{Op: syntax.OpLiteral, Flags: syntax.FoldCase, Rune: []rune{'k', c27Rune("r")}}
	case 16:
		// a star applied to a concatenation / alternation needs grouping
		return un(syntax.OpStar, 0, &syntax.Regexp{Op: syntax.OpConcat, Sub: []*syntax.Regexp{c27Lit("r1"), c27Lit("r2")}})
	case 17:
		return &syntax.Regexp{Op: syntax.OpConcat, Sub: []*syntax.Regexp{c27Lit("r1"), &syntax.Regexp{Op: syntax.OpAlternate, Sub: []*syntax.Regexp{un(syntax.OpStar, 0, c27Lit("r2")), {Op: syntax.OpEmptyMatch}}}}}
	case 18:
		// a quantifier applied to another repetition needs grouping: (?:a{1,})?
		inner := un(syntax.OpRepeat, 0, c27Lit("r"))
		inner.Min, inner.Max = 1, -1
		return un(syntax.OpQuest, 0, inner)
	case 19:
		// (?:a+?)* : different greediness inside
		return un(syntax.OpStar, 0, un(syntax.OpPlus, syntax.NonGreedy, c27Lit("r")))
	case 20:
		inner := un(syntax.OpRepeat, 0, c27Lit("r"))
		inner.Min, inner.Max = 2, 2
		outer := un(syntax.OpRepeat, 0, inner)
		outer.Min, outer.Max = 0, 1
		return outer
	case 21:
		return un(syntax.OpPlus, 0, un(syntax.OpQuest, syntax.NonGreedy, c27Lit("r")))
	}
	return &syntax.Regexp{Op: syntax.OpNoMatch}
}

const c27Trees = 23

func H_C27_print() {
	re := c27Tree(verifrt.Concretize(verifrt.IntRange("tree", 0, c27Trees-1)))
	ours := RegexpString(re)
	a, errA := syntax.Parse(ours, syntax.Perl)
	verifrt.Assert(errA == nil, "the printed regexp parses")
	if errA != nil {
		return
	}
	std := re.String()
	b, errB := syntax.Parse(std, syntax.Perl)
	verifrt.Assume(errB == nil)
	verifrt.Observe("len", len(ours))
	verifrt.Assert(a.Equal(b), "the printed regexp parses to the same tree as the standard printer's text (same language)")
	verifrt.Reach("returned")
}

func H_C27_twin() {
	re := c27Tree(0)
	verifrt.Assert(RegexpString(re) == "never", "twin")
}
